import OxiaVerif.Model.Select
import OxiaVerif.Facts

/-!
# C19 — Every shard ensemble has RF distinct eligible servers and respects anti-affinity

Model M-Select (`Select.selectEnsemble`, `swapTarget`, `replaceInList`), tied to
`coordinator/selectors/**`, `balancer/scheduler.go` and `shard_controller.go` by differential runs on
generated clusters (1–8 servers, 0–3 labels, servers without metadata / without a label, 0–3 rules
with 1–2 labels, strict and relaxed, RF 1–5, existing placements) with a generator-chosen load order.

All theorems are for an **arbitrary** choice function `pick` that returns a member of the candidate
set it is given (`PickOk`): this quantifies over load ratios, `ServerIdx`, randomness and map order.
-/
namespace Oxia.C19
open Oxia.Select

def PickOk (pick : List Server → Server) : Prop := ∀ cs, cs ≠ [] → pick cs ∈ cs

/-- `x` has label `l` and its value is not taken by a selected server -/
def Sat (ctx : Ctx) (selected : List Server) (x : Server) (l : Label) : Prop :=
  ∃ v, valueOf ctx x l = some v ∧ v ∉ selectedValues ctx selected l

theorem mem_satisfied {ctx : Ctx} {cands0 selected : List Server} {l : Label} {x : Server}
    (h : x ∈ satisfied ctx cands0 selected l) : x ∈ cands0 ∧ Sat ctx selected x l := by
  unfold satisfied at h
  obtain ⟨h1, h2⟩ := List.mem_filter.1 h
  refine ⟨h1, ?_⟩
  cases hv : valueOf ctx x l with
  | none => simp [hv] at h2
  | some v => exact ⟨v, hv, by simpa [hv] using h2⟩

theorem mem_inter {a b : List Server} {x : Server} (h : x ∈ inter a b) : x ∈ a ∧ x ∈ b := by
  unfold inter at h
  obtain ⟨h1, h2⟩ := List.mem_filter.1 h
  exact ⟨h1, by simpa using h2⟩

theorem mem_union {a b : List Server} {x : Server} (h : x ∈ union a b) : x ∈ a ∨ x ∈ b := by
  unfold union at h
  simp at h
  rcases h with h | h
  · exact .inl h
  · exact .inr h.1

/-- what the running candidate set of the anti-affinity loop guarantees after some steps -/
def StepInv (ctx : Ctx) (cands0 selected : List Server) (done : List (Nat × Label × Bool)) (cs : List Server) : Prop :=
  ∀ x ∈ cs, x ∈ cands0 ∧
    (∀ p ∈ done, p.1 > 0 → Sat ctx selected x p.2.1) ∧
    (∃ p ∈ done, p.1 = 0 ∧ Sat ctx selected x p.2.1)

theorem aaStep_inv (ctx : Ctx) (cands0 selected : List Server) (done : List (Nat × Label × Bool))
    (cs cs' : List Server) (p : Nat × Label × Bool)
    (hsorted : p.1 = 0 → ∀ q ∈ done, q.1 = 0)     -- the steps of rule 0 come first
    (hinv : StepInv ctx cands0 selected done cs)
    (h : aaStep true ctx cands0 selected (.ok cs) p = .ok cs') :
    StepInv ctx cands0 selected (done ++ [p]) cs' := by
  obtain ⟨idx, l, strict⟩ := p
  simp only [aaStep] at h
  split at h
  · -- a label of rule 0: union
    rename_i hidx
    have hidx' : idx = 0 := hidx
    subst hidx'
    unfold aaStep0 at h
    split at h
    · simp at h
    · simp at h
      subst h
      intro x hx
      rcases mem_union hx with hx | hx
      · obtain ⟨h1, h2, q, hq, hq0, hqs⟩ := hinv x hx
        refine ⟨h1, ?_, q, by simp [hq], hq0, hqs⟩
        intro p hp hp0
        simp at hp
        rcases hp with hp | rfl
        · exact h2 p hp hp0
        · simp at hp0
      · obtain ⟨h1, h2⟩ := mem_satisfied hx
        refine ⟨h1, ?_, (0, l, strict), by simp, rfl, h2⟩
        intro p hp hp0
        simp at hp
        rcases hp with hp | rfl
        · have := hsorted rfl p hp; omega
        · simp at hp0
  · -- a label of a later rule: intersection
    rename_i hidx
    unfold aaStepN at h
    split at h
    · simp at h
    · simp at h
      subst h
      intro x hx
      obtain ⟨hx1, hx2⟩ := mem_inter hx
      obtain ⟨h1, h2⟩ := mem_satisfied hx1
      obtain ⟨_, g2, q, hq, hq0, hqs⟩ := hinv x hx2
      refine ⟨h1, ?_, q, by simp [hq], hq0, hqs⟩
      intro p hp hp0
      simp at hp
      rcases hp with hp | rfl
      · exact g2 p hp hp0
      · exact h2

/-- the whole fold -/
theorem fold_inv (ctx : Ctx) (cands0 selected : List Server) :
    ∀ (todo done : List (Nat × Label × Bool)) (cs cs' : List Server),
      (∀ p ∈ todo, p.1 = 0 → ∀ q ∈ done, q.1 = 0) →
      (todo.Pairwise (fun a b => b.1 = 0 → a.1 = 0)) →
      StepInv ctx cands0 selected done cs →
      todo.foldl (aaStep true ctx cands0 selected) (.ok cs) = .ok cs' →
      StepInv ctx cands0 selected (done ++ todo) cs' := by
  intro todo
  induction todo with
  | nil => intro done cs cs' _ _ hinv h; simp at h; subst h; simpa using hinv
  | cons p rest ih =>
    intro done cs cs' hd hp hinv h
    simp only [List.foldl] at h
    cases hs : aaStep true ctx cands0 selected (.ok cs) p with
    | error e =>
      rw [hs] at h
      -- an error is absorbing
      have : ∀ (l : List (Nat × Label × Bool)), l.foldl (aaStep true ctx cands0 selected) (.error e) = .error e := by
        intro l; induction l with
        | nil => rfl
        | cons y ys ihy => simp only [List.foldl, aaStep]; exact ihy
      rw [this] at h; cases h
    | ok cs1 =>
      rw [hs] at h
      have hinv1 := aaStep_inv ctx cands0 selected done cs cs1 p (fun h0 => hd p (by simp) h0) hinv hs
      have := ih (done ++ [p]) cs1 cs' ?_ (List.Pairwise.of_cons hp) hinv1 h
      · simpa using this
      · intro q hq hq0 r hr
        simp at hr
        rcases hr with hr | rfl
        · exact hd q (by simp [hq]) hq0 r hr
        · exact (List.pairwise_cons.1 hp).1 q hq hq0

/-- the steps are generated rule by rule -/
theorem ruleSteps_sorted (rules : List Rule) : (ruleSteps rules).Pairwise (fun a b => b.1 = 0 → a.1 = 0) := by
  unfold ruleSteps
  -- indices are ascending along `zipIdx`
  have key : ∀ (l : List Rule) (k : Nat),
      ((l.zipIdx k).flatMap fun (r, i) => r.labels.map fun lb => (i, lb, r.strict)).Pairwise
        (fun a b => a.1 ≤ b.1) := by
    intro l
    induction l with
    | nil => intro k; simp
    | cons r rs ih =>
      intro k
      simp only [List.zipIdx_cons, List.flatMap_cons]
      rw [List.pairwise_append]
      refine ⟨?_, ih (k + 1), ?_⟩
      · rw [List.pairwise_map]
        exact List.Pairwise.imp (fun _ => Nat.le_refl _) (List.pairwise_of_forall (fun _ _ => trivial))
      · intro a ha b hb
        simp at ha hb
        obtain ⟨_, _, rfl⟩ := ha
        obtain ⟨r', i', hmem, _, _, rfl⟩ := hb
        have := (List.mem_zipIdx hmem).1
        simp; omega
  exact List.Pairwise.imp (fun {a b} (h : a.1 ≤ b.1) hb => by omega) (key rules 0)


/-- what every server offered by the anti-affinity selector satisfies -/
def RulesSat (ctx : Ctx) (selected : List Server) (x : Server) : Prop :=
  (∀ p ∈ ruleSteps ctx.rules, p.1 > 0 → Sat ctx selected x p.2.1) ∧
  (∃ p ∈ ruleSteps ctx.rules, p.1 = 0 ∧ Sat ctx selected x p.2.1)

theorem antiAffinity_sound (ctx : Ctx) (cands0 selected : List Server) :
    (∀ c, antiAffinity true ctx cands0 selected = .one c → c ∈ cands0 ∧ RulesSat ctx selected c) ∧
    (∀ cs, antiAffinity true ctx cands0 selected = .multiple cs → ∀ x ∈ cs, x ∈ cands0 ∧ RulesSat ctx selected x) ∧
    (antiAffinity true ctx cands0 selected = .noFunctioning → ctx.rules = []) := by
  unfold antiAffinity
  split
  · rename_i he
    refine ⟨(by intro c h; cases h), (by intro cs h; cases h), fun _ => by simpa using he⟩
  · cases hf : (ruleSteps ctx.rules).foldl (aaStep true ctx cands0 selected) (.ok []) with
    | error e => exact ⟨(by intro c h; cases h), (by intro cs h; cases h), (by intro h; cases h)⟩
    | ok cs =>
      have hinv := fold_inv ctx cands0 selected (ruleSteps ctx.rules) [] [] cs
        (fun _ _ _ q hq => by cases hq) (ruleSteps_sorted ctx.rules) (fun x hx => by cases hx) hf
      simp only [List.nil_append] at hinv
      have hall : ∀ x ∈ cs, x ∈ cands0 ∧ RulesSat ctx selected x := fun x hx => by
        obtain ⟨h1, h2, h3⟩ := hinv x hx
        exact ⟨h1, h2, h3⟩
      simp only
      refine ⟨?_, ?_, ?_⟩
      · intro c h
        split at h
        · simp at h; subst h; exact hall _ (by simp)
        · cases h
      · intro cs' h
        split at h
        · cases h
        · simp at h; subst h; exact hall
      · intro h
        split at h <;> cases h

/-- a server that satisfies a rule step is not among the selected ones -/
theorem sat_not_selected {ctx : Ctx} {selected : List Server} {x : Server} {l : Label}
    (h : Sat ctx selected x l) : x ∉ selected := by
  obtain ⟨v, hv, hnv⟩ := h
  intro hx
  apply hnv
  unfold selectedValues
  rw [List.mem_filterMap]
  exact ⟨x, hx, hv⟩

/-- **one selection**: the chosen server is a fresh candidate of the cluster and satisfies the rules
    against the servers selected so far -/
theorem selectOne_sound (ctx : Ctx) (pick : List Server → Server) (hp : PickOk pick) (refuses : Bool)
    (cands0 cands selected : List Server) (s : Server) (cands' : List Server)
    (hc : ∀ x ∈ cands, x ∉ selected)
    (h : selectOne true refuses ctx pick cands0 cands selected = .ok s cands') :
    s ∉ selected ∧ (s ∈ cands0 ∨ s ∈ cands) ∧ (∀ x ∈ cands', x ∈ cands0 ∨ x ∈ cands) ∧
    (ctx.rules ≠ [] → RulesSat ctx selected s) := by
  obtain ⟨h1, h2, h3⟩ := antiAffinity_sound ctx cands0 selected
  unfold selectOne at h
  cases ha : antiAffinity true ctx cands0 selected with
  | error e => rw [ha] at h; simp at h
  | one c =>
    rw [ha] at h; simp at h
    obtain ⟨rfl, rfl⟩ := h
    obtain ⟨g1, g2⟩ := h1 c ha
    obtain ⟨p, _, _, hs⟩ := g2.2
    exact ⟨sat_not_selected hs, .inl g1, fun x hx => .inr hx, fun _ => g2⟩
  | multiple cs =>
    rw [ha] at h
    simp only at h
    split at h
    · split at h <;> simp at h
    · rename_i hne
      simp at h
      obtain ⟨rfl, rfl⟩ := h
      have hmem := hp cs (by simpa using hne)
      obtain ⟨g1, g2⟩ := h2 cs ha _ hmem
      obtain ⟨p, _, _, hs⟩ := g2.2
      exact ⟨sat_not_selected hs, .inl g1, fun x hx => .inl (h2 cs ha x hx).1, fun _ => g2⟩
  | noFunctioning =>
    rw [ha] at h
    simp only at h
    split at h
    · split at h <;> simp at h
    · rename_i hne
      simp at h
      obtain ⟨rfl, rfl⟩ := h
      have hmem := hp cands (by simpa using hne)
      exact ⟨hc _ hmem, .inr hmem, fun x hx => .inr hx, fun hr => absurd (h3 ha) hr⟩

/-- invariant of the ensemble loop -/
structure LoopInv (ctx : Ctx) (cands selected : List Server) : Prop where
  nodup : selected.Nodup
  sub : ∀ x ∈ selected, x ∈ ctx.servers
  csub : ∀ x ∈ cands, x ∈ ctx.servers ∧ x ∉ selected
  aa : ∀ p ∈ ruleSteps ctx.rules, p.1 > 0 → (selectedValues ctx selected p.2.1).Nodup

theorem selectedValues_snoc {ctx : Ctx} {selected : List Server} {s : Server} {l : Label} {v : Nat}
    (hv : valueOf ctx s l = some v) : selectedValues ctx (selected ++ [s]) l = selectedValues ctx selected l ++ [v] := by
  simp [selectedValues, List.filterMap_append, hv]

theorem selectLoop_inv (ctx : Ctx) (pick : List Server → Server) (hp : PickOk pick) (refuses : Bool) :
    ∀ (n : Nat) (cands selected e : List Server), LoopInv ctx cands selected →
      selectLoop true refuses ctx pick ctx.servers n cands selected = .ok e →
      e.Nodup ∧ (∀ x ∈ e, x ∈ ctx.servers) ∧ e.length = selected.length + n ∧
      (∀ p ∈ ruleSteps ctx.rules, p.1 > 0 → (selectedValues ctx e p.2.1).Nodup) := by
  intro n
  induction n with
  | zero =>
    intro cands selected e inv h
    simp [selectLoop] at h
    subst h
    exact ⟨inv.nodup, inv.sub, by simp, inv.aa⟩
  | succ n ih =>
    intro cands selected e inv h
    unfold selectLoop at h
    cases hs : selectOne true refuses ctx pick ctx.servers cands selected with
    | error err => rw [hs] at h; simp at h
    | panic => rw [hs] at h; simp at h
    | ok s cands' =>
      rw [hs] at h
      simp only at h
      obtain ⟨g1, g2, g3, g4⟩ := selectOne_sound ctx pick hp refuses ctx.servers cands selected s cands'
        (fun x hx => (inv.csub x hx).2) hs
      have hnc : selected.contains s = false := by simpa using g1
      simp only [hnc, Bool.false_eq_true, if_false] at h
      have hsrv : s ∈ ctx.servers := by
        rcases g2 with g | g
        · exact g
        · exact (inv.csub s g).1
      have inv' : LoopInv ctx (cands'.filter (fun x => !(selected ++ [s]).contains x)) (selected ++ [s]) := by
        refine ⟨?_, ?_, ?_, ?_⟩
        · rw [List.nodup_append]
          exact ⟨inv.nodup, by simp, by intro a ha b hb; simp at hb; subst hb; intro hab; subst hab; exact g1 ha⟩
        · intro x hx
          simp at hx
          rcases hx with hx | rfl
          · exact inv.sub x hx
          · exact hsrv
        · intro x hx
          obtain ⟨hx1, hx2⟩ := List.mem_filter.1 hx
          refine ⟨?_, by simpa using hx2⟩
          rcases g3 x hx1 with g | g
          · exact g
          · exact (inv.csub x g).1
        · intro p hp hp0
          by_cases hr : ctx.rules = []
          · simp [ruleSteps, hr] at hp
          · obtain ⟨ga, _⟩ := g4 hr
            obtain ⟨v, hv, hnv⟩ := ga p hp hp0
            rw [selectedValues_snoc hv, List.nodup_append]
            exact ⟨inv.aa p hp hp0, by simp, by intro a ha b hb; simp at hb; subst hb; intro hab; subst hab; exact hnv ha⟩
      obtain ⟨r1, r2, r3, r4⟩ := ih _ _ e inv' h
      exact ⟨r1, r2, by simp at r3; omega, r4⟩

/-- **every accepted ensemble is RF distinct servers of the cluster**, and for every anti-affinity rule
    after the first one, and every label of it, no two members share a value (whatever the tie-break
    function chooses; rules in relaxed mode refuse the ensemble when they cannot be met). -/
theorem C19_ensemble_ok (ctx : Ctx) (pick : List Server → Server) (hp : PickOk pick) (refuses : Bool) (e : List Server)
    (h : selectEnsemble true refuses ctx pick = .ok e) :
    e.length = ctx.replicas ∧ e.Nodup ∧ (∀ x ∈ e, x ∈ ctx.servers) ∧
    (∀ p ∈ ruleSteps ctx.rules, p.1 > 0 → (selectedValues ctx e p.2.1).Nodup) := by
  unfold selectEnsemble at h
  cases hl : selectLoop true refuses ctx pick ctx.servers ctx.replicas ctx.servers [] with
  | error err => rw [hl] at h; simp at h
  | panic => rw [hl] at h; simp at h
  | ok e' =>
    rw [hl] at h
    simp only at h
    split at h
    · simp at h
    · rename_i hlen
      simp at h; subst h
      have inv0 : LoopInv ctx ctx.servers [] :=
        { nodup := List.nodup_nil, sub := (fun x hx => by cases hx), csub := (fun x hx => ⟨hx, by simp⟩),
          aa := (fun p _ _ => by simp [selectedValues]) }
      obtain ⟨r1, r2, _, r4⟩ := selectLoop_inv ctx pick hp refuses _ _ _ _ inv0 hl
      exact ⟨by simpa using hlen, r1, r2, r4⟩

/-- **never a partial ensemble**: the selection either yields a full ensemble or refuses (and, with the
    fact read from the selector chain, never panics) -/
theorem selectLoop_no_panic (ctx : Ctx) (pick : List Server → Server) :
    ∀ (n : Nat) (cands0 cands selected : List Server), selectLoop true true ctx pick cands0 n cands selected ≠ .panic := by
  intro n
  induction n with
  | zero => intro _ _ _; simp [selectLoop]
  | succ n ih =>
    intro cands0 cands selected
    unfold selectLoop
    cases hs : selectOne true true ctx pick cands0 cands selected with
    | error e => simp
    | ok s c => simp only; exact ih _ _ _
    | panic =>
      exfalso
      unfold selectOne at hs
      simp only [if_true] at hs
      split at hs <;> (try split at hs) <;> simp at hs

theorem C19_refused_or_full (ctx : Ctx) (pick : List Server → Server) :
    selectEnsemble true true ctx pick ≠ .panic := by
  unfold selectEnsemble
  cases hl : selectLoop true true ctx pick ctx.servers ctx.replicas ctx.servers [] with
  | panic => exact absurd hl (selectLoop_no_panic ctx pick _ _ _ _)
  | error e => simp
  | ok e => simp only; split <;> simp

/-- **a swap never proposes a server that is already in the ensemble** and the target is a server of
    the cluster that satisfies the rules against the remaining members -/
theorem C19_swap_target_fresh (ctx : Ctx) (pick : List Server → Server) (hp : PickOk pick) (refuses : Bool)
    (ensemble : List Server) (from_ t : Server) (c : List Server)
    (h : swapTarget true refuses ctx pick ensemble from_ = .ok t c) :
    t ∉ ensemble.filter (· ≠ from_) ∧ t ∈ ctx.servers ∧
    (ctx.rules ≠ [] → RulesSat ctx (ensemble.filter (· ≠ from_)) t) := by
  unfold swapTarget at h
  obtain ⟨g1, g2, _, g4⟩ := selectOne_sound ctx pick hp refuses _ _ _ t c
    (fun x hx => by
      have h2 := (List.mem_filter.1 hx).2
      simp at h2 ⊢
      intro hx'
      rcases h2 with h2 | h2
      · exact absurd hx' h2
      · exact h2) h
  refine ⟨g1, ?_, g4⟩
  rcases g2 with g | g <;> exact (List.mem_filter.1 g).1

/-- **a node swap replaces exactly one member** -/
theorem C19_replace_one_member (l : List Server) (old new : Server) (h1 : old ∈ l) (h2 : new ∉ l) (hn : l.Nodup) :
    (replaceInList l old new).length = l.length ∧ (replaceInList l old new).Nodup ∧
    new ∈ replaceInList l old new ∧ old ∉ replaceInList l old new ∧
    (∀ x ∈ l, x ≠ old → x ∈ replaceInList l old new) := by
  unfold replaceInList
  have hne : new ≠ old := fun h => h2 (h ▸ h1)
  have hlen : ∀ (l : List Server), old ∈ l → l.Nodup → (l.filter (· ≠ old)).length + 1 = l.length := by
    intro l
    induction l with
    | nil => intro h; cases h
    | cons a as ih =>
      intro hmem hnd
      have hna := List.nodup_cons.1 hnd
      by_cases ha : a = old
      · subst ha
        have hself : as.filter (· ≠ a) = as :=
          List.filter_eq_self.2 (fun x hx => by simp; intro hxa; exact hna.1 (hxa ▸ hx))
        have hhead : (a :: as).filter (· ≠ a) = as.filter (· ≠ a) := by simp
        rw [hhead, hself]; simp
      · have hold : old ∈ as := by
          simp at hmem; rcases hmem with h | h
          · exact absurd h.symm ha
          · exact h
        have hcons : (a :: as).filter (· ≠ old) = a :: as.filter (· ≠ old) := by simp [ha]
        rw [hcons]
        have := ih hold hna.2
        simp only [List.length_cons]; omega
  have hl := hlen l h1 hn
  refine ⟨by simp only [List.length_append, List.length_singleton]; omega, ?_, by simp, ?_, ?_⟩
  · rw [List.nodup_append]
    refine ⟨List.Nodup.sublist List.filter_sublist hn, by simp, ?_⟩
    intro a ha b hb
    simp at hb; subst hb
    intro hab; subst hab
    exact h2 (List.mem_filter.1 ha).1
  · intro h
    simp at h
    exact hne h.symm
  · intro x hx hxo
    simp [hx, hxo]

/-- facts about the selector chain and the swap path, read from the source on every run -/
theorem C19_on_tree : Facts.antiAffinityFirstRuleUnion = true ∧ Facts.antiAffinityLaterRulesIntersectRunningSet = true ∧
    Facts.selectorChainOrder = true ∧ Facts.selectorRefusesWhenNoCandidate = true ∧
    Facts.replaceInListComparesIdentifiers = true ∧ Facts.swapShardSelectsAgainstRestOfEnsemble = true := by decide

/-- the labels of the **first** rule are combined by union: with a two-label first rule two members can
    share a value of one of its labels (defect D-23, recorded as a known finding) -/
theorem C19_counterexample_multi_label_first_rule :
    let ctx : Ctx := { servers := [0, 1, 2],
                       labelsOf := fun s => if s = 0 then [(0, 0), (1, 0)] else if s = 1 then [(0, 0), (1, 1)] else [(0, 1), (1, 0)],
                       rules := [{ labels := [0, 1], strict := true }], replicas := 2 }
    selectEnsemble true true ctx (fun cs => cs.headD 0) = .ok [0, 2] := by decide

-- non-vacuity: an accepted ensemble under a two-rule policy
example :
    let ctx : Ctx := { servers := [0, 1, 2, 3],
                       labelsOf := fun s => [(0, s % 2), (1, s / 2)],
                       rules := [{ labels := [0], strict := true }, { labels := [1], strict := true }], replicas := 2 }
    selectEnsemble true true ctx (fun cs => cs.headD 0) = .ok [0, 3] := by decide

end Oxia.C19
