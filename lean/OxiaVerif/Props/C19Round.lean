import OxiaVerif.Facts

/-!
C19, several swaps of one shard within one rebalancing round ("every shard ensemble has RF distinct servers").

The balancer replaces a member `from` of an ensemble by a server it picks among the candidates that are not among
the *remaining* members. Within one round the same shard can be swapped more than once (two of its servers have
been removed from the cluster; or a removed server first and the most loaded one afterwards).

* `C19_round_keeps_distinct`: when every pick is made against the ensemble as the earlier swaps of the round leave
  it, the ensemble stays duplicate-free and keeps its size over any number of swaps, for every way of picking;
* `C19_round_with_stale_ensembles_duplicates`: when the picks are made against the ensemble of the round's start -
  what the code did: the swap was recorded in the load figures, not in the other nodes' copies of the shard
  (genuine defect D-61, repaired) - two removed servers are replaced by the same server: kernel-checked run.
-/
namespace Oxia.C19Round

/-- `replaceInList`: the member goes, the new server is appended -/
def applySwap (e : List Nat) (frm to : Nat) : List Nat := e.filter (· ≠ frm) ++ [to]

/-- a round: the members `froms` of the ensemble are replaced one after the other; `pick rest frm` is the server the
    selector returns when the remaining members are `rest` -/
def round (pick : List Nat → Nat → Nat) : List Nat → List Nat → List Nat
  | e, [] => e
  | e, f :: fs => round pick (applySwap e f (pick (e.filter (· ≠ f)) f)) fs

/-- the same with every pick made against the ensemble `e0` of the round's start -/
def roundStale (pick : List Nat → Nat → Nat) (e0 : List Nat) : List Nat → List Nat → List Nat
  | e, [] => e
  | e, f :: fs => roundStale pick e0 (applySwap e f (pick (e0.filter (· ≠ f)) f)) fs

theorem applySwap_nodup (e : List Nat) (frm to : Nat) (h : e.Nodup) (hto : to ∉ e.filter (· ≠ frm)) :
    (applySwap e frm to).Nodup := by
  unfold applySwap
  rw [List.nodup_append]
  refine ⟨h.filter _, by simp, ?_⟩
  intro a ha b hb
  simp at hb
  subst hb
  intro hab
  subst hab
  exact hto ha

theorem applySwap_length (e : List Nat) (frm to : Nat) (h : e.Nodup) (hin : frm ∈ e) :
    (applySwap e frm to).length = e.length := by
  unfold applySwap
  induction e with
  | nil => cases hin
  | cons x xs ih =>
    have hx := List.nodup_cons.mp h
    by_cases hxf : x = frm
    · subst hxf
      have hnot : ∀ y ∈ xs, y ≠ x := fun y hy hyx => hx.1 (hyx ▸ hy)
      have : xs.filter (· ≠ x) = xs := List.filter_eq_self.mpr (by intro y hy; simpa using hnot y hy)
      simp [List.filter_cons]
      exact fun a ha => hnot a ha
    · have hin' : frm ∈ xs := by
        rcases List.mem_cons.mp hin with h1 | h1
        · exact absurd h1.symm hxf
        · exact h1
      have := ih hx.2 hin'
      simp [List.filter_cons, hxf] at this ⊢
      omega

/-- **A round keeps the ensemble duplicate-free**, for every number of swaps and every selector that never returns
    one of the remaining members. -/
theorem C19_round_keeps_distinct (pick : List Nat → Nat → Nat) (hpick : ∀ rest f, pick rest f ∉ rest)
    (froms : List Nat) : ∀ (e : List Nat), e.Nodup → (round pick e froms).Nodup := by
  induction froms with
  | nil => intro e h; exact h
  | cons f fs ih =>
    intro e h
    exact ih _ (applySwap_nodup e f _ h (hpick _ f))

/-- the selector of the run below: the lowest-numbered server of the cluster 0..4 that is not among the rest -/
def lowest (rest : List Nat) (_ : Nat) : Nat := ((List.range 5).filter (fun s => !rest.contains s)).headD 0

/-- **With stale ensembles the round produces a duplicate**: servers 5 and 6 have been removed, the shard lives on
    [5, 6, 0]; both are replaced by server 1. Computed against the current ensemble the same round gives [0, 1, 2]. -/
theorem C19_round_with_stale_ensembles_duplicates :
    roundStale lowest [5, 6, 0] [5, 6, 0] [5, 6] = [0, 1, 1] ∧ round lowest [5, 6, 0] [5, 6] = [0, 1, 2] := by decide

/-- the fact as regenerated from the tree: a proposed swap is recorded in every copy of the shard -/
theorem C19_round_on_tree : Facts.balancerRecordsSwapInShardEnsembles = true := by decide

end Oxia.C19Round
