import OxiaVerif.Model.Batch
import OxiaVerif.Props.C11
import OxiaVerif.Facts

/-!
C20 — client batching and fan-out are transparent.

* batcher loop: every submitted call gets exactly one outcome, in every event sequence (calls, timer
  firings, close), for every configuration; the executed batches are the completed calls in submission
  order (a partition into consecutive runs) and respect the request / byte limits; a call reported as
  completed was part of the batch it is attributed to.
* write / read batch: positional mapping gives every call the answer to its own request, whatever the
  mix of kinds and however many attempts were needed.
* multi-shard comparison get: for every arrival order of the per-shard answers and every placement of
  errors the operation completes exactly once, never panics, and returns the extremal key.
* k-way merge: the result is a permutation of the per-shard results and is in global key order.
-/
namespace Oxia.C20
open Oxia.Key Oxia.Batch Oxia.C11

/-! ### the batcher loop -/

def callsOf : List Ev → List Call
  | [] => []
  | .call c :: r => c :: callsOf r
  | _ :: r => callsOf r

theorem callsOf_append (a b : List Ev) : callsOf (a ++ b) = callsOf a ++ callsOf b := by
  induction a with
  | nil => rfl
  | cons e r ih => cases e <;> simp [callsOf, ih]

/-- ids of the calls that have an outcome, in callback order, followed by the calls waiting in the open batch -/
def accounted (s : St) : List Nat := s.outcomes.map (·.1) ++ (s.cur.getD []).map (·.id)

theorem accounted_complete (s : St) (b : List Call) (h : s.cur.getD [] = b) :
    accounted (complete s b) = accounted s := by
  unfold complete accounted
  by_cases hb : b.isEmpty = true
  · have : b = [] := by simpa using hb
    simp [this] at h ⊢
    simp [h]
  · simp [hb, h, List.map_append, Function.comp_def]

theorem openBatch_fst (cfg : Cfg) (s : St) : (openBatch cfg s).1 = s.cur.getD [] := by
  unfold openBatch; cases s.cur <;> rfl

theorem accounted_finish (cfg : Cfg) (s1 : St) (b1 : List Call) (a : Bool) (c : Call) :
    accounted (finish cfg s1 b1 a c) = s1.outcomes.map (·.1) ++ b1.map (·.id) ++ [c.id] := by
  unfold finish
  split
  · rw [accounted_complete _ _ (by simp)]
    simp [accounted]
  · simp [accounted]

theorem accounted_addCall (cfg : Cfg) (s : St) (c : Call) :
    accounted (addCall cfg s c) = accounted s ++ [c.id] := by
  unfold addCall
  split
  · rw [accounted_finish, openBatch_fst]; rfl
  · rw [accounted_finish]
    have := accounted_complete s (openBatch cfg s).1 (openBatch_fst cfg s).symm
    have hc : (complete s (openBatch cfg s).1).cur = none := by unfold complete; split <;> rfl
    simp [accounted, hc] at this
    simp [this, accounted]

/-- once the batcher is closed there is no open batch -/
def ClosedInv (s : St) : Prop := s.closed = true → s.cur = none

theorem complete_closed (s : St) (b : List Call) : (complete s b).closed = s.closed := by
  unfold complete; split <;> rfl

theorem finish_closed (cfg : Cfg) (s1 : St) (b1 : List Call) (a : Bool) (c : Call) :
    (finish cfg s1 b1 a c).closed = s1.closed := by
  unfold finish; split
  · rw [complete_closed]
  · rfl

theorem addCall_closed (cfg : Cfg) (s : St) (c : Call) : (addCall cfg s c).closed = s.closed := by
  unfold addCall; split
  · rw [finish_closed]
  · rw [finish_closed, complete_closed]

theorem closedInv_step (cfg : Cfg) (s : St) (e : Ev) (h : ClosedInv s) : ClosedInv (step cfg s e) := by
  intro hc
  cases e with
  | call c =>
    simp only [step] at hc ⊢
    split
    · next hcl => exact h hcl
    · next hcl => rw [if_neg hcl, addCall_closed] at hc; exact absurd hc hcl
  | timer =>
    simp only [step] at hc ⊢
    cases hcur : s.cur with
    | none => simpa using hcur
    | some b =>
      simp only [hcur] at hc ⊢
      split
      · unfold complete; split <;> rfl
      · next hn => rw [if_neg hn] at hc; rw [h hc] at hcur; cases hcur
  | close =>
    simp only [step]
    cases s.cur <;> rfl

theorem accounted_step (cfg : Cfg) (s : St) (e : Ev) (hci : ClosedInv s) :
    accounted (step cfg s e) = accounted s ++ (callsOf [e]).map (·.id) := by
  cases e with
  | call c =>
    simp only [step, callsOf]
    split
    · next hcl => simp [accounted, hci hcl]
    · simpa using accounted_addCall cfg s c
  | timer =>
    simp only [step, callsOf]
    cases hcur : s.cur with
    | none => simp
    | some b =>
      simp only []
      split
      · rw [accounted_complete _ _ (by simp [hcur])]; simp
      · simp
  | close =>
    simp only [step, callsOf]
    cases hcur : s.cur with
    | none => simp [accounted, hcur]
    | some b => simp [accounted, hcur, Function.comp_def]

theorem run_append (cfg : Cfg) (a b : List Ev) : run cfg (a ++ b) = b.foldl (step cfg) (run cfg a) := by
  simp [run, List.foldl_append]

theorem run_inv (cfg : Cfg) (evs : List Ev) :
    ClosedInv (run cfg evs) ∧ accounted (run cfg evs) = (callsOf evs).map (·.id) := by
  suffices h : ∀ (s : St) (seen : List Ev), ClosedInv s → accounted s = (callsOf seen).map (·.id) →
      ClosedInv (evs.foldl (step cfg) s) ∧ accounted (evs.foldl (step cfg) s) = (callsOf (seen ++ evs)).map (·.id) by
    have := h St.init [] (by intro h; cases h) rfl
    simpa [run] using this
  induction evs with
  | nil => intro s seen h1 h2; simpa using ⟨h1, h2⟩
  | cons e r ih =>
    intro s seen h1 h2
    have := ih (step cfg s e) (seen ++ [e]) (closedInv_step cfg s e h1)
      (by rw [accounted_step cfg s e h1, h2, callsOf_append]; simp)
    simpa using this

/-- **C20 (a)** every submitted call gets exactly one outcome: once the batcher has been closed, the ids
    with an outcome are exactly the ids submitted, in order, with multiplicity — for every event
    sequence and every configuration (including a split without re-armed timer: the close catches it). -/
theorem C20_exactly_once (cfg : Cfg) (evs : List Ev) :
    (run cfg (evs ++ [.close])).outcomes.map (·.1) = (callsOf evs).map (·.id) := by
  have h := run_inv cfg (evs ++ [.close])
  have hcl : (run cfg (evs ++ [.close])).closed = true := by
    rw [run_append]; simp only [List.foldl_cons, List.foldl_nil, step]
    cases (run cfg evs).cur <;> rfl
  have hcur := h.1 hcl
  have h2 := h.2
  simp only [accounted, hcur, callsOf_append] at h2
  simpa [callsOf] using h2

/-- no call ever has two outcomes, at any point of any run -/
theorem C20_at_most_once (cfg : Cfg) (evs : List Ev) :
    ∃ rest, (run cfg evs).outcomes.map (·.1) ++ rest = (callsOf evs).map (·.id) :=
  ⟨_, (run_inv cfg evs).2⟩

/-! #### the executed batches are the submitted calls in order -/

def OrderInv (s : St) (seen : List Call) : Prop :=
  (s.closed = false → s.batches.flatten ++ s.cur.getD [] = seen) ∧
  (s.closed = true → ∃ rest, s.batches.flatten ++ rest = seen)

theorem complete_batches (s : St) (b : List Call) :
    (complete s b).batches.flatten = s.batches.flatten ++ b ∧ (complete s b).cur = none := by
  unfold complete
  by_cases hb : b.isEmpty = true
  · have : b = [] := by simpa using hb
    simp [this]
  · simp [hb]

theorem finish_order (cfg : Cfg) (s1 : St) (b1 : List Call) (a : Bool) (c : Call) :
    (finish cfg s1 b1 a c).batches.flatten ++ (finish cfg s1 b1 a c).cur.getD [] =
      s1.batches.flatten ++ b1 ++ [c] := by
  unfold finish
  split
  · have := complete_batches { s1 with cur := some (b1 ++ [c]) } (b1 ++ [c])
    rw [this.1, this.2]; simp
  · simp

theorem addCall_order (cfg : Cfg) (s : St) (c : Call) :
    (addCall cfg s c).batches.flatten ++ (addCall cfg s c).cur.getD [] =
      s.batches.flatten ++ s.cur.getD [] ++ [c] := by
  unfold addCall
  split
  · rw [finish_order, openBatch_fst]
  · rw [finish_order, (complete_batches s _).1, openBatch_fst]; simp

theorem orderInv_step (cfg : Cfg) (s : St) (e : Ev) (seen : List Call) (hci : ClosedInv s)
    (h : OrderInv s seen) : OrderInv (step cfg s e) (seen ++ callsOf [e]) := by
  cases e with
  | call c =>
    simp only [step, callsOf]
    split
    · next hcl =>
      refine ⟨fun h0 => by simp [hcl] at h0, fun _ => ?_⟩
      obtain ⟨rest, hr⟩ := h.2 hcl
      exact ⟨rest ++ [c], by simp [← hr]⟩
    · next hcl =>
      have hcl' : s.closed = false := by simpa using hcl
      refine ⟨fun _ => ?_, fun h1 => by rw [addCall_closed] at h1; exact absurd h1 hcl⟩
      rw [addCall_order, h.1 hcl']
  | timer =>
    simp only [step, callsOf, List.append_nil]
    cases hcur : s.cur with
    | none => simpa using h
    | some b =>
      simp only []
      split
      · have hb := complete_batches s b
        refine ⟨fun h0 => ?_, fun h1 => ?_⟩
        · rw [complete_closed] at h0
          rw [hb.1, hb.2]; simpa [hcur] using h.1 h0
        · rw [complete_closed] at h1
          rw [hci h1] at hcur; cases hcur
      · exact h
  | close =>
    simp only [step, callsOf, List.append_nil]
    cases hcl : s.closed with
    | true =>
      have := hci hcl
      simp only [this]
      exact ⟨fun h0 => by simp at h0, fun _ => h.2 hcl⟩
    | false =>
      have h1 := h.1 hcl
      cases hcur : s.cur with
      | none => exact ⟨fun h0 => by simp at h0, fun _ => ⟨[], by simpa [hcur] using h1⟩⟩
      | some b => exact ⟨fun h0 => by simp at h0, fun _ => ⟨b, by simpa [hcur] using h1⟩⟩

theorem run_order (cfg : Cfg) (evs : List Ev) : OrderInv (run cfg evs) (callsOf evs) := by
  suffices h : ∀ (s : St) (seen : List Ev), ClosedInv s → OrderInv s (callsOf seen) →
      OrderInv (evs.foldl (step cfg) s) (callsOf (seen ++ evs)) by
    have := h St.init [] (by intro h; cases h) ⟨fun _ => rfl, fun h => by cases h⟩
    simpa [run] using this
  induction evs with
  | nil => intro s seen _ h2; simpa using h2
  | cons e r ih =>
    intro s seen h1 h2
    have := ih (step cfg s e) (seen ++ [e]) (closedInv_step cfg s e h1)
      (by rw [callsOf_append]; exact orderInv_step cfg s e _ h1 h2)
    simpa using this

/-- **C20 (b)** the executed batches, concatenated, are a prefix of the submitted calls in submission
    order: batching only cuts the call stream into consecutive runs; nothing is reordered, duplicated or
    executed that was not submitted. Until the batcher is closed, the executed batches plus the open
    batch are exactly the submitted calls. -/
theorem C20_batches_partition_in_order (cfg : Cfg) (evs : List Ev) :
    ∃ rest, (run cfg evs).batches.flatten ++ rest = callsOf evs := by
  have h := run_order cfg evs
  cases hcl : (run cfg evs).closed with
  | true => exact h.2 hcl
  | false => exact ⟨_, h.1 hcl⟩

theorem C20_open_batcher_loses_nothing (cfg : Cfg) (evs : List Ev) (h : (run cfg evs).closed = false) :
    (run cfg evs).batches.flatten ++ (run cfg evs).cur.getD [] = callsOf evs :=
  (run_order cfg evs).1 h

/-! #### limits -/

def Good (cfg : Cfg) (b : List Call) : Prop :=
  b ≠ [] ∧ b.length ≤ cfg.maxRequests ∧ (cfg.maxBytes = 0 ∨ bytes b ≤ cfg.maxBytes ∨ b.length = 1)

def LimitInv (cfg : Cfg) (s : St) : Prop :=
  (∀ b ∈ s.batches, Good cfg b) ∧ (∀ b, s.cur = some b → Good cfg b ∧ b.length < cfg.maxRequests)

theorem bytes_append (a b : List Call) : bytes (a ++ b) = bytes a + bytes b := by
  simp [bytes, List.map_append, List.sum_append]

theorem complete_limit (cfg : Cfg) (s : St) (b : List Call) (hs : ∀ x ∈ s.batches, Good cfg x)
    (hb : b ≠ [] → Good cfg b) : LimitInv cfg (complete s b) := by
  unfold complete
  by_cases he : b.isEmpty = true
  · simp only [he, if_true]
    exact ⟨hs, fun _ h => by cases h⟩
  · simp only [he]
    refine ⟨fun x hx => ?_, fun _ h => by cases h⟩
    have hx' : x ∈ s.batches ++ [b] := hx
    simp only [List.mem_append, List.mem_singleton] at hx'
    rcases hx' with hx | hx
    · exact hs x hx
    · subst hx; exact hb (by simpa using he)

theorem finish_limit (cfg : Cfg) (hmax : 1 ≤ cfg.maxRequests) (s1 : St) (b1 : List Call) (a : Bool) (c : Call)
    (hs : ∀ x ∈ s1.batches, Good cfg x) (hg : Good cfg (b1 ++ [c])) :
    LimitInv cfg (finish cfg s1 b1 a c) := by
  unfold finish
  split
  · exact complete_limit cfg _ _ hs (fun _ => hg)
  · next hn =>
    refine ⟨hs, fun b hb => ?_⟩
    have hb' : b1 ++ [c] = b := by simpa using hb
    subst hb'
    refine ⟨hg, ?_⟩
    have := hg.2.1
    have hne : ¬ (b1 ++ [c]).length = cfg.maxRequests := fun h => hn (Or.inl h)
    omega

theorem addCall_limit (cfg : Cfg) (hmax : 1 ≤ cfg.maxRequests) (s : St) (c : Call) (h : LimitInv cfg s) :
    LimitInv cfg (addCall cfg s c) := by
  unfold addCall
  split
  · next hca =>
    apply finish_limit cfg hmax _ _ _ _ h.1
    rw [openBatch_fst]
    rw [openBatch_fst] at hca
    have hb : cfg.maxBytes = 0 ∨ bytes (s.cur.getD [] ++ [c]) ≤ cfg.maxBytes := by
      unfold canAdd at hca
      rw [bytes_append]
      simp only [Bool.or_eq_true, decide_eq_true_eq] at hca
      rcases hca with h0 | h1
      · exact Or.inl h0
      · right; simpa [bytes] using h1
    cases hcur : s.cur with
    | none =>
      simp only [Option.getD_none, List.nil_append]
      exact ⟨by simp, by simpa using hmax, Or.inr (Or.inr rfl)⟩
    | some b =>
      have hg := h.2 b hcur
      simp only [hcur, Option.getD_some] at hb ⊢
      refine ⟨by simp, ?_, ?_⟩
      · simp only [List.length_append, List.length_singleton]; omega
      · rcases hb with h0 | h1
        · exact Or.inl h0
        · exact Or.inr (Or.inl h1)
  · have hc := complete_limit cfg s (openBatch cfg s).1 h.1 (fun hne => by
      rw [openBatch_fst] at hne ⊢
      cases hcur : s.cur with
      | none => simp [hcur] at hne
      | some b => simpa using (h.2 b hcur).1)
    apply finish_limit cfg hmax _ _ _ _ hc.1
    exact ⟨by simp, by simpa using hmax, Or.inr (Or.inr rfl)⟩

theorem limitInv_step (cfg : Cfg) (hmax : 1 ≤ cfg.maxRequests) (s : St) (e : Ev) (h : LimitInv cfg s) :
    LimitInv cfg (step cfg s e) := by
  cases e with
  | call c =>
    simp only [step]
    split
    · exact h
    · exact addCall_limit cfg hmax s c h
  | timer =>
    simp only [step]
    cases hcur : s.cur with
    | none => simpa using h
    | some b =>
      simp only []
      split
      · exact complete_limit cfg s b h.1 (fun _ => (h.2 b hcur).1)
      · exact h
  | close =>
    simp only [step]
    cases hcur : s.cur with
    | none => exact ⟨h.1, fun b hb => h.2 b (by simpa [hcur] using hb)⟩
    | some b => exact ⟨h.1, fun _ hb => by cases hb⟩

/-- **C20 (c)** every executed batch is non-empty, has at most `maxRequests` calls and at most `maxBytes`
    bytes (unless it consists of one call that is larger than the limit on its own). -/
theorem C20_batches_respect_limits (cfg : Cfg) (hmax : 1 ≤ cfg.maxRequests) (evs : List Ev) :
    ∀ b ∈ (run cfg evs).batches, Good cfg b := by
  have h0 : LimitInv cfg St.init := by
    constructor
    · intro b hb; simp [St.init] at hb
    · intro b hb; simp [St.init] at hb
  suffices h : ∀ s, LimitInv cfg s → LimitInv cfg (evs.foldl (step cfg) s) from (h St.init h0).1
  induction evs with
  | nil => intro s h; exact h
  | cons e r ih => intro s h; exact ih _ (limitInv_step cfg hmax s e h)

/-! #### liveness bookkeeping: an open batch always has an armed timer -/

def TimerInv (cfg : Cfg) (s : St) : Prop :=
  ∀ b, s.cur = some b → cfg.linger > 0 ∧ s.timerArmed = true

theorem complete_cur (s : St) (b : List Call) : (complete s b).cur = none := (complete_batches s b).2

theorem finish_timer (cfg : Cfg) (s1 : St) (b1 : List Call) (a : Bool) (c : Call)
    (ha : cfg.linger > 0 → a = true) : TimerInv cfg (finish cfg s1 b1 a c) := by
  unfold finish
  split
  · intro b hb; rw [complete_cur] at hb; cases hb
  · next hn =>
    intro b _
    have : cfg.linger > 0 := by
      have : ¬ cfg.linger = 0 := fun h => hn (Or.inr h)
      omega
    exact ⟨this, ha this⟩

/-- **C20 (d)** with the linger timer re-armed after a size split (fact read from the source), an open
    batch always has an armed timer, so it is completed by the timer even if no further call arrives;
    with linger 0 there is never an open batch. -/
theorem C20_open_batch_has_armed_timer (cfg : Cfg) (hre : cfg.rearmAfterSplit = true) (evs : List Ev) :
    TimerInv cfg (run cfg evs) := by
  suffices h : ∀ s, TimerInv cfg s → TimerInv cfg (evs.foldl (step cfg) s) from h St.init (fun _ h => by cases h)
  induction evs with
  | nil => intro s h; exact h
  | cons e r ih =>
    intro s h
    apply ih
    cases e with
    | call c =>
      simp only [step]
      split
      · exact h
      · unfold addCall
        split
        · apply finish_timer
          intro hl
          unfold openBatch
          cases hcur : s.cur with
          | none => simpa using hl
          | some b => exact (h b hcur).2
        · apply finish_timer
          intro hl
          simp [hl, hre]
    | timer =>
      simp only [step]
      cases hcur : s.cur with
      | none => simpa using h
      | some b =>
        simp only []
        split
        · intro b hb; rw [complete_cur] at hb; cases hb
        · exact h
    | close =>
      simp only [step]
      cases hcur : s.cur with
      | none => intro b hb; simp [hcur] at hb
      | some b => intro _ hb; cases hb

/-- and the timer does complete the open batch: after a timer event nothing is left waiting -/
theorem C20_timer_completes (cfg : Cfg) (hre : cfg.rearmAfterSplit = true) (evs : List Ev) :
    (run cfg (evs ++ [.timer])).cur = none := by
  rw [run_append]
  simp only [List.foldl_cons, List.foldl_nil, step]
  have h := C20_open_batch_has_armed_timer cfg hre evs
  cases hcur : (run cfg evs).cur with
  | none => simpa using hcur
  | some b => simp only [(h b hcur).2, if_true]; exact complete_cur _ _

/-- non-vacuity / necessity: without re-arming, a batch can be left waiting with no timer -/
example : (run { linger := 1, maxRequests := 10, maxBytes := 10, rearmAfterSplit := false }
    [.call ⟨0, 8⟩, .call ⟨1, 8⟩, .timer]).cur = some [⟨1, 8⟩] := by decide

/-! ### positional mapping -/

theorem mem_zip_map {α β : Type} (l : List α) (f : α → β) (p : α × β) (h : p ∈ l.zip (l.map f)) : p.2 = f p.1 := by
  induction l with
  | nil => simp at h
  | cons x xs ih =>
    simp only [List.map_cons, List.zip_cons_cons, List.mem_cons] at h
    rcases h with h | h
    · subst h; rfl
    · exact ih h

theorem zip_map_fst {α β : Type} (l : List α) (f : α → β) : (l.zip (l.map f)).map (·.1) = l := by
  induction l with
  | nil => rfl
  | cons x xs ih => simp [ih]

/-- **C20 (e)** write batch: every call gets the answer to its own request, whatever the mix of kinds -/
theorem C20_write_positional {α : Type} (calls : List (Nat × Kind)) (answer : Nat → α) :
    ∀ p ∈ writeHandle calls answer, p.2 = answer p.1 := by
  intro p hp
  unfold writeHandle at hp
  simp only [List.mem_append] at hp
  rcases hp with (hp | hp) | hp <;> exact mem_zip_map _ _ _ hp

theorem filter_kinds_perm (calls : List (Nat × Kind)) :
    (((calls.filter (·.2 = .put)).map (·.1)) ++ ((calls.filter (·.2 = .delete)).map (·.1)) ++
      ((calls.filter (·.2 = .deleteRange)).map (·.1))).Perm (calls.map (·.1)) := by
  induction calls with
  | nil => simp
  | cons c r ih =>
    obtain ⟨i, k⟩ := c
    cases k
    · simpa using ih
    · simp only [List.filter_cons, List.map_cons]
      simp only [reduceCtorEq, decide_false, Bool.false_eq_true, if_false, decide_true, if_true, List.map_cons]
      refine List.Perm.trans ?_ (List.Perm.cons i ih)
      simp only [List.append_assoc]
      exact List.perm_middle
    · simp only [List.filter_cons, List.map_cons]
      simp only [reduceCtorEq, decide_false, Bool.false_eq_true, if_false, decide_true, if_true, List.map_cons]
      refine List.Perm.trans ?_ (List.Perm.cons i ih)
      exact List.perm_middle

/-- and every call of the batch gets exactly one callback -/
theorem C20_write_each_once {α : Type} (calls : List (Nat × Kind)) (answer : Nat → α) :
    ((writeHandle calls answer).map (·.1)).Perm (calls.map (·.1)) := by
  unfold writeHandle
  simp only [List.map_append, zip_map_fst]
  exact filter_kinds_perm calls

/-- **C20 (f)** read batch: with a fresh response object per attempt (fact), whatever prefix earlier
    attempts delivered before failing, the successful attempt's answers are what is handed out, and the
    i-th call gets the i-th answer -/
theorem readWithRetries_fresh {α : Type} (answers : List α) (script : List RAttempt) (r : List α)
    (h : readWithRetries true answers script [] = some (.ok r)) : r = answers := by
  induction script with
  | nil => simp [readWithRetries] at h
  | cons a rest ih =>
    cases a with
    | partialRetriable k => simp only [readWithRetries, if_true] at h; exact ih h
    | partialFatal k => simp [readWithRetries] at h
    | ok =>
      simp only [readWithRetries, List.nil_append, Option.some.injEq] at h
      cases h; rfl

theorem C20_read_positional {α : Type} (n : Nat) (answer : Nat → α) (script : List RAttempt) (r : List α)
    (h : readWithRetries true ((List.range n).map answer) script [] = some (.ok r)) :
    handle (List.range n) r = some ((List.range n).zip ((List.range n).map answer)) := by
  have := readWithRetries_fresh _ _ _ h
  subst this
  simp [handle]

/-- necessity: a response shared across attempts hands call 1 the answer of call 0 -/
example : readWithRetries false [10, 11] [.partialRetriable 1, .ok] [] = some (.ok [10, 10, 11]) := by
  simp [readWithRetries]

/-- whole-batch retry returns the first non-retriable answer, however many retriable failures precede it -/
theorem C20_retry_transparent {α : Type} (k : Nat) (r : Exec α) (rest : List (Exec α))
    (hr : ∀ x, r ≠ .ok x → r = .fatal) :
    ∃ out, withRetries (List.replicate k .retriable ++ r :: rest) = some out ∧
      (∀ x, r = .ok x → out = .ok x) ∧ (r = .fatal → out = .fatal) := by
  induction k with
  | zero =>
    cases r with
    | ok x => exact ⟨.ok x, by simp [withRetries], ⟨fun _ h => h, fun h => by cases h⟩⟩
    | retriable => have := hr [] (by simp); cases this
    | fatal => exact ⟨.fatal, by simp [withRetries], ⟨fun _ h => (by cases h), fun _ => rfl⟩⟩
  | succ k ih =>
    obtain ⟨out, h1, h2⟩ := ih
    exact ⟨out, by simpa [List.replicate_succ, withRetries] using h1, h2⟩

/-! ### multi-shard comparison get -/

/-- a strict total order given as a Boolean relation -/
structure StrictTotal (lt : Key → Key → Bool) : Prop where
  trans : ∀ a b c, lt a b = true → lt b c = true → lt a c = true
  total : ∀ a b, lt a b = true ∨ a = b ∨ lt b a = true
  irrefl : ∀ a, lt a a = false

def ltSlash (a b : Key) : Bool := cmpSlash a b = .lt
def gtSlash (a b : Key) : Bool := cmpSlash a b = .gt

theorem gt_iff_lt (a b : Key) : cmpSlash a b = .gt ↔ cmpSlash b a = .lt := by
  rw [C11_antisymm a b]; cases cmpSlash a b <;> simp [Ordering.swap]

theorem ltSlash_strict : StrictTotal ltSlash where
  trans a b c h1 h2 := by
    simp only [ltSlash, decide_eq_true_eq] at *
    exact C11_trans a b c h1 h2
  total a b := by
    simp only [ltSlash, decide_eq_true_eq]
    exact C11_total a b
  irrefl a := by
    simp only [ltSlash, decide_eq_false_iff_not]
    exact C11_irrefl a

theorem gtSlash_strict : StrictTotal gtSlash where
  trans a b c h1 h2 := by
    simp only [gtSlash, decide_eq_true_eq, gt_iff_lt] at *
    exact C11_trans c b a h2 h1
  total a b := by
    simp only [gtSlash, decide_eq_true_eq, gt_iff_lt]
    rcases C11_total a b with h | h | h
    · exact .inr (.inr h)
    · exact .inr (.inl h)
    · exact .inl h
  irrefl a := by
    simp only [gtSlash, decide_eq_false_iff_not, gt_iff_lt]
    exact C11_irrefl a

/-- keep the candidate that is largest under `lt` -/
def pickMax (lt : Key → Key → Bool) (sel : Option Key) (r : Ans) : Option Key :=
  match r with
  | .found k => (match sel with
    | none => some k
    | some s => if lt s k then some k else some s)
  | _ => sel

theorem selectResponse_floor (c : Cmp) (hc : c = .floor ∨ c = .lower) (sel : Option Key) (r : Ans) :
    selectResponse c sel r = pickMax ltSlash sel r := by
  rcases hc with hc | hc <;> subst hc <;> cases r <;> cases sel <;> simp [selectResponse, pickMax, ltSlash]

theorem selectResponse_ceiling (c : Cmp) (hc : c = .ceiling ∨ c = .higher) (sel : Option Key) (r : Ans) :
    selectResponse c sel r = pickMax gtSlash sel r := by
  rcases hc with hc | hc <;> subst hc <;> cases r <;> cases sel <;> simp [selectResponse, pickMax, gtSlash]

theorem not_lt_trans {lt : Key → Key → Bool} (h : StrictTotal lt) {k b a : Key}
    (h1 : lt k b = false) (h2 : lt b a = false) : lt k a = false := by
  cases hka : lt k a with
  | false => rfl
  | true =>
    rcases h.total b a with hba | hba | hba
    · rw [hba] at h2; cases h2
    · subst hba; rw [hka] at h1; cases h1
    · have := h.trans k a b hka hba
      rw [this] at h1; cases h1

/-- the fold keeps a maximum: the result is one of the candidates and no candidate is larger -/
theorem pickMax_fold {lt : Key → Key → Bool} (h : StrictTotal lt) (p : List Ans) :
    ∀ (acc : Option Key) (k : Key), p.foldl (pickMax lt) acc = some k →
      (acc = some k ∨ .found k ∈ p) ∧ (∀ a, acc = some a → lt k a = false) ∧
      (∀ k', .found k' ∈ p → lt k k' = false) := by
  induction p with
  | nil =>
    intro acc k hk
    simp only [List.foldl_nil] at hk
    refine ⟨.inl hk, fun a ha => ?_, fun _ hm => by cases hm⟩
    rw [hk] at ha; cases ha; exact h.irrefl k
  | cons r rest ih =>
    intro acc k hk
    simp only [List.foldl_cons] at hk
    obtain ⟨h1, h2, h3⟩ := ih _ k hk
    cases r with
    | notFound =>
      simp only [pickMax] at h1 h2
      exact ⟨h1.imp id (fun m => List.mem_cons_of_mem _ m), h2, fun k' hm => by
        cases hm with
        | tail _ hm => exact h3 k' hm⟩
    | error =>
      simp only [pickMax] at h1 h2
      exact ⟨h1.imp id (fun m => List.mem_cons_of_mem _ m), h2, fun k' hm => by
        cases hm with
        | tail _ hm => exact h3 k' hm⟩
    | found x =>
      cases acc with
      | none =>
        simp only [pickMax] at h1 h2
        refine ⟨.inr ?_, fun a ha => (by cases ha), fun k' hm => ?_⟩
        · rcases h1 with h1 | h1
          · cases h1; exact List.mem_cons_self
          · exact List.mem_cons_of_mem _ h1
        · cases hm with
          | head => exact h2 _ rfl
          | tail _ hm => exact h3 k' hm
      | some s =>
        simp only [pickMax] at h1 h2
        cases hsx : lt s x with
        | true =>
          simp only [hsx, if_true] at h1 h2
          have hkx := h2 x rfl
          refine ⟨.inr ?_, fun a ha => ?_, fun k' hm => ?_⟩
          · rcases h1 with h1 | h1
            · cases h1; exact List.mem_cons_self
            · exact List.mem_cons_of_mem _ h1
          · cases ha
            -- k ≥ x > s
            cases hks : lt k s with
            | false => rfl
            | true =>
              have := h.trans k s x hks hsx
              rw [this] at hkx; cases hkx
          · cases hm with
            | head => exact hkx
            | tail _ hm => exact h3 k' hm
        | false =>
          simp only [hsx] at h1 h2
          have hks := h2 s rfl
          refine ⟨?_, fun a ha => ?_, fun k' hm => ?_⟩
          · rcases h1 with h1 | h1
            · exact .inl (by simpa using h1)
            · exact .inr (List.mem_cons_of_mem _ h1)
          · cases ha; exact hks
          · cases hm with
            | head => exact not_lt_trans h hks hsx
            | tail _ hm => exact h3 k' hm

def best (c : Cmp) (p : List Ans) : Option Key := p.foldl (selectResponse c) none

theorem foldl_congr_fn {α β : Type} (f g : β → α → β) (h : ∀ b a, f b a = g b a) (l : List α) (b : β) :
    l.foldl f b = l.foldl g b := by
  induction l generalizing b with
  | nil => rfl
  | cons x xs ih => simp [List.foldl_cons, h, ih]

/-- **C20 (g)** FLOOR / LOWER over all shards: the selected record is one shard's answer and no shard
    answered with a higher key; CEILING / HIGHER: none with a lower key — independent of arrival order -/
theorem C20_best_floor (c : Cmp) (hc : c = .floor ∨ c = .lower) (p : List Ans) (k : Key) (h : best c p = some k) :
    .found k ∈ p ∧ ∀ k', .found k' ∈ p → cmpSlash k k' ≠ .lt := by
  unfold best at h
  rw [foldl_congr_fn _ _ (selectResponse_floor c hc)] at h
  obtain ⟨h1, _, h3⟩ := pickMax_fold ltSlash_strict p none k h
  refine ⟨h1.resolve_left (by simp), fun k' hm => ?_⟩
  have := h3 k' hm
  simpa [ltSlash] using this

theorem C20_best_ceiling (c : Cmp) (hc : c = .ceiling ∨ c = .higher) (p : List Ans) (k : Key) (h : best c p = some k) :
    .found k ∈ p ∧ ∀ k', .found k' ∈ p → cmpSlash k k' ≠ .gt := by
  unfold best at h
  rw [foldl_congr_fn _ _ (selectResponse_ceiling c hc)] at h
  obtain ⟨h1, _, h3⟩ := pickMax_fold gtSlash_strict p none k h
  refine ⟨h1.resolve_left (by simp), fun k' hm => ?_⟩
  have := h3 k' hm
  simpa [gtSlash] using this

/-- a record found on some shard is never lost -/
theorem best_isSome (c : Cmp) (p : List Ans) (k : Key) (hm : .found k ∈ p) : (best c p).isSome = true := by
  unfold best
  suffices h : ∀ acc : Option Key, (acc.isSome = true ∨ .found k ∈ p) → (p.foldl (selectResponse c) acc).isSome = true from
    h none (.inr hm)
  clear hm
  induction p with
  | nil => intro acc h; rcases h with h | h; exact h; cases h
  | cons r rest ih =>
    intro acc h
    simp only [List.foldl_cons]
    apply ih
    rcases h with h | h
    · left
      cases acc with
      | none => cases h
      | some s => cases r <;> cases c <;> simp [selectResponse] <;> split <;> rfl
    · cases h with
      | head => left; cases acc <;> cases c <;> simp [selectResponse] <;> split <;> rfl
      | tail _ h => exact .inr h

/-! #### completion -/

def hasError (p : List Ans) : Bool := p.any (· == .error)

/-- what the state is after the callbacks `p` of `n` shards (with the error branch returning) -/
structure Spec (c : Cmp) (n : Nat) (p : List Ans) (s : MState) : Prop where
  noPanic : s.panicked = false
  err : hasError p = true → s.counter = 0 ∧ s.sent = [.failed] ∧ s.closedCh = true
  running : hasError p = false → p.length < n →
    s.counter = (n : Int) - p.length ∧ s.selected = best c p ∧ s.sent = [] ∧ s.closedCh = false
  done : hasError p = false → p.length = n → s.counter = 0 ∧ s.sent = [.value (best c p)] ∧ s.closedCh = true

theorem best_append (c : Cmp) (p : List Ans) (r : Ans) : best c (p ++ [r]) = selectResponse c (best c p) r := by
  simp [best, List.foldl_append]

theorem hasError_append (p : List Ans) (r : Ans) : hasError (p ++ [r]) = (hasError p || r == .error) := by
  simp [hasError, List.any_append]

theorem spec_of_error (c : Cmp) (n : Nat) (p : List Ans) (s : MState) (he : hasError p = true)
    (h0 : s.panicked = false) (h1 : s.counter = 0) (h2 : s.sent = [.failed]) (h3 : s.closedCh = true) :
    Spec c n p s := by
  refine { noPanic := h0, err := fun _ => ⟨h1, h2, h3⟩, running := ?_, done := ?_ }
  · intro h; rw [he] at h; cases h
  · intro h; rw [he] at h; cases h

theorem spec_step (c : Cmp) (n : Nat) (p : List Ans) (s : MState) (r : Ans) (hs : Spec c n p s)
    (hlen : p.length < n) : Spec c n (p ++ [r]) (mstep true c s r) := by
  cases he : hasError p with
  | true =>
    obtain ⟨h1, h2, h3⟩ := hs.err he
    have : mstep true c s r = s := by unfold mstep; simp [hs.noPanic, h1]
    rw [this]
    have he' : hasError (p ++ [r]) = true := by rw [hasError_append, he]; rfl
    exact spec_of_error c n _ s he' hs.noPanic h1 h2 h3
  | false =>
    obtain ⟨h1, h2, h3, h4⟩ := hs.running he hlen
    have hpos : s.counter ≠ 0 := by omega
    by_cases hr : r = .error
    · subst hr
      have he' : hasError (p ++ [.error]) = true := by rw [hasError_append, he]; rfl
      have : mstep true c s .error = { s with sent := s.sent ++ [.failed], closedCh := true, counter := 0 } := by
        unfold mstep; simp [hs.noPanic, hpos, h4]
      rw [this]
      exact spec_of_error c n _ _ he' hs.noPanic rfl (by simp [h3]) rfl
    · have he' : hasError (p ++ [r]) = false := by
        rw [hasError_append, he]; cases r <;> simp_all
      have hlen' : (p ++ [r]).length = p.length + 1 := by simp
      by_cases hlast : p.length + 1 = n
      · have hc : s.counter - 1 = 0 := by omega
        have : mstep true c s r = ⟨s.counter - 1, selectResponse c s.selected r,
            s.sent ++ [.value (selectResponse c s.selected r)], true, s.panicked⟩ := by
          unfold mstep; simp [hs.noPanic, hpos, hr, hc, h4]
        rw [this]
        refine { noPanic := hs.noPanic, err := ?_, running := ?_, done := ?_ }
        · intro h; rw [he'] at h; cases h
        · intro _ hl; omega
        · intro _ _; exact ⟨hc, by simp [h3, h2, best_append], rfl⟩
      · have hc : s.counter - 1 ≠ 0 := by omega
        have : mstep true c s r = { s with selected := selectResponse c s.selected r, counter := s.counter - 1 } := by
          unfold mstep; simp [hs.noPanic, hpos, hr, hc]
        rw [this]
        refine { noPanic := hs.noPanic, err := ?_, running := ?_, done := ?_ }
        · intro h; rw [he'] at h; cases h
        · intro _ _
          refine ⟨?_, by simp [h2, best_append], h3, h4⟩
          simp only [hlen']; omega
        · intro _ hl; omega

theorem spec_run (c : Cmp) (n : Nat) (hn : 0 < n) (arr : List Ans) (hlen : arr.length ≤ n) :
    Spec c n arr (multiShardGetN true c n arr) := by
  unfold multiShardGetN
  suffices h : ∀ (p : List Ans) (s : MState), Spec c n p s → p.length + arr.length ≤ n →
      Spec c n (p ++ arr) (arr.foldl (mstep true c) s) by
    have h0 : Spec c n [] (MState.init n) := by
      refine { noPanic := rfl, err := ?_, running := ?_, done := ?_ }
      · intro h; simp [hasError] at h
      · intro _ _; exact ⟨by simp [MState.init], rfl, rfl, rfl⟩
      · intro _ h; simp at h; omega
    simpa using h [] _ h0 (by simpa using hlen)
  induction arr with
  | nil => intro p s hs _; simpa using hs
  | cons r rest ih =>
    intro p s hs hl
    simp only [List.length_cons] at hl
    have := ih (by simp only [List.length_cons] at hlen; omega) (p ++ [r]) _ (spec_step c n p s r hs (by omega))
      (by simp; omega)
    simpa using this

/-- **C20 (h)** multi-shard comparison get: whatever the order in which the shards answer and wherever the
    errors are, once every shard has answered the operation has completed exactly once — with the error
    if any shard failed, otherwise with the selected record — and no callback panics. Before that, it has
    completed at most once. (Uses the fact that the error branch returns.) -/
theorem C20_multi_shard_get_completes_once (c : Cmp) (answers : List Ans) (hn : 0 < answers.length)
    (arr : List Ans) (hperm : arr.Perm answers) :
    (multiShardGetN true c answers.length arr).panicked = false ∧
    (multiShardGetN true c answers.length arr).sent =
      [if hasError answers then .failed else .value (best c arr)] := by
  have hl : arr.length = answers.length := hperm.length_eq
  have hs := spec_run c answers.length hn arr (by omega)
  have hee : hasError arr = hasError answers := by
    unfold hasError
    cases h : answers.any (· == .error) with
    | true =>
      rw [List.any_eq_true] at h ⊢
      obtain ⟨x, hx, hx2⟩ := h
      exact ⟨x, hperm.mem_iff.2 hx, hx2⟩
    | false =>
      rw [List.any_eq_false] at h ⊢
      intro x hx
      exact h x (hperm.mem_iff.1 hx)
  refine ⟨hs.noPanic, ?_⟩
  cases he : hasError answers with
  | true => simpa using (hs.err (by rw [hee, he])).2.1
  | false => simpa using (hs.done (by rw [hee, he]) hl).2.1

theorem C20_multi_shard_get_at_most_once (c : Cmp) (n : Nat) (hn : 0 < n) (arr : List Ans) (hlen : arr.length ≤ n) :
    (multiShardGetN true c n arr).panicked = false ∧ (multiShardGetN true c n arr).sent.length ≤ 1 := by
  have hs := spec_run c n hn arr hlen
  refine ⟨hs.noPanic, ?_⟩
  cases he : hasError arr with
  | true => rw [(hs.err he).2.1]; simp
  | false =>
    by_cases hl : arr.length = n
    · rw [(hs.done he hl).2.1]; simp
    · rw [(hs.running he (by omega)).2.2.1]; simp

/-- the defect this check found (D-24, repaired): without the `return`, the error of a second shard is
    sent on the closed channel -/
example : (multiShardGet false .equal [.error, .error]).panicked = true := by decide

/-! ### k-way merge of the per-shard range-scan results -/

def le (a b : Key) : Prop := cmpSlash a b ≠ .gt

def SortedKeys (l : List Key) : Prop := l.Pairwise le

theorem le_refl (a : Key) : le a a := by
  unfold le; rw [(C11_eq_iff a a).2 rfl]; simp

theorem le_trans {a b c : Key} (h1 : le a b) (h2 : le b c) : le a c := by
  unfold le at *
  have := not_lt_trans gtSlash_strict (k := a) (b := b) (a := c) (by simpa [gtSlash] using h1) (by simpa [gtSlash] using h2)
  simpa [gtSlash] using this

theorem minKey_spec (hs : List Key) : ∀ h : Key, minKey h hs ∈ h :: hs ∧ ∀ x ∈ h :: hs, le (minKey h hs) x := by
  induction hs with
  | nil => intro h; simp [minKey, le_refl]
  | cons b hs ih =>
    intro h
    have hstep : minKey h (b :: hs) = minKey (if cmpSlash b h = .lt then b else h) hs := by simp [minKey]
    rw [hstep]
    obtain ⟨hm, hle⟩ := ih (if cmpSlash b h = .lt then b else h)
    have hh : le (if cmpSlash b h = .lt then b else h) h := by
      split
      · next hlt => unfold le; rw [hlt]; simp
      · exact le_refl h
    have hb : le (if cmpSlash b h = .lt then b else h) b := by
      split
      · exact le_refl b
      · next hn => unfold le; intro hg; exact hn ((gt_iff_lt h b).1 hg)
    have hmin := hle _ List.mem_cons_self
    refine ⟨?_, fun x hx => ?_⟩
    · simp only [List.mem_cons] at hm ⊢
      rcases hm with hm | hm
      · rw [hm]; split
        · exact .inr (.inl rfl)
        · exact .inl rfl
      · exact .inr (.inr hm)
    · simp only [List.mem_cons] at hx
      rcases hx with hx | hx | hx
      · subst hx; exact le_trans hmin hh
      · subst hx; exact le_trans hmin hb
      · exact hle x (List.mem_cons_of_mem _ hx)

theorem heads_nil_flatten (ls : List (List Key)) (h : ls.filterMap List.head? = []) : ls.flatten = [] := by
  induction ls with
  | nil => rfl
  | cons l rest ih =>
    cases l with
    | nil => simp only [List.filterMap_cons, List.head?_nil] at h; simpa using ih h
    | cons x xs => simp [List.filterMap_cons] at h

theorem popHead_perm (m : Key) (ls : List (List Key)) (hm : m ∈ ls.filterMap List.head?) :
    ls.flatten.Perm (m :: (popHead m ls).flatten) := by
  induction ls with
  | nil => simp at hm
  | cons l rest ih =>
    unfold popHead
    by_cases hl : l.head? = some m
    · simp only [hl, if_true, List.flatten_cons]
      cases l with
      | nil => simp at hl
      | cons x xs =>
        simp only [List.head?_cons, Option.some.injEq] at hl
        subst hl
        simp
    · simp only [hl, if_false, List.flatten_cons]
      have hm' : m ∈ rest.filterMap List.head? := by
        cases l with
        | nil => simpa [List.filterMap_cons] using hm
        | cons x xs =>
          simp only [List.filterMap_cons, List.head?_cons, List.mem_cons] at hm
          rcases hm with hm | hm
          · subst hm; simp at hl
          · exact hm
      exact (List.Perm.append_left l (ih hm')).trans List.perm_middle

theorem popHead_sorted (m : Key) (ls : List (List Key)) (h : ∀ l ∈ ls, SortedKeys l) :
    ∀ l ∈ popHead m ls, SortedKeys l := by
  induction ls with
  | nil => intro l hl; simp [popHead] at hl
  | cons l rest ih =>
    intro x hx
    unfold popHead at hx
    split at hx
    · simp only [List.mem_cons] at hx
      rcases hx with hx | hx
      · subst hx
        have := h l List.mem_cons_self
        unfold SortedKeys at *
        cases l with
        | nil => simpa using this
        | cons y ys => simpa using (List.pairwise_cons.1 this).2
      · exact h x (List.mem_cons_of_mem _ hx)
    · simp only [List.mem_cons] at hx
      rcases hx with hx | hx
      · subst hx; exact h x List.mem_cons_self
      · exact ih (fun l hl => h l (List.mem_cons_of_mem _ hl)) x hx

theorem popHead_mem (m : Key) (ls : List (List Key)) (x : Key) (hx : x ∈ (popHead m ls).flatten) : x ∈ ls.flatten := by
  induction ls with
  | nil => simpa [popHead] using hx
  | cons l rest ih =>
    unfold popHead at hx
    split at hx
    · simp only [List.flatten_cons, List.mem_append] at hx ⊢
      rcases hx with hx | hx
      · exact .inl (List.mem_of_mem_tail hx)
      · exact .inr hx
    · simp only [List.flatten_cons, List.mem_append] at hx ⊢
      rcases hx with hx | hx
      · exact .inl hx
      · exact .inr (ih hx)

theorem kwayMerge_perm : ∀ (fuel : Nat) (ls : List (List Key)), ls.flatten.length ≤ fuel →
    (kwayMerge fuel ls).Perm ls.flatten := by
  intro fuel
  induction fuel with
  | zero =>
    intro ls h
    have : ls.flatten = [] := List.eq_nil_of_length_eq_zero (by omega)
    simp [kwayMerge, this]
  | succ fuel ih =>
    intro ls h
    unfold kwayMerge
    cases hh : ls.filterMap List.head? with
    | nil => simp [heads_nil_flatten ls hh]
    | cons x xs =>
      simp only []
      have hm : minKey x xs ∈ ls.filterMap List.head? := by rw [hh]; exact (minKey_spec xs x).1
      have hp := popHead_perm _ ls hm
      have hlen := hp.length_eq
      simp only [List.length_cons] at hlen
      exact (List.Perm.cons _ (ih _ (by omega))).trans hp.symm

theorem kwayMerge_mem : ∀ (fuel : Nat) (ls : List (List Key)) (x : Key), x ∈ kwayMerge fuel ls → x ∈ ls.flatten := by
  intro fuel
  induction fuel with
  | zero => intro ls x hx; simp [kwayMerge] at hx
  | succ fuel ih =>
    intro ls x hx
    unfold kwayMerge at hx
    cases hh : ls.filterMap List.head? with
    | nil => simp [hh] at hx
    | cons y ys =>
      simp only [hh, List.mem_cons] at hx
      have hm : minKey y ys ∈ ls.filterMap List.head? := by rw [hh]; exact (minKey_spec ys y).1
      rcases hx with hx | hx
      · subst hx
        exact (popHead_perm _ ls hm).mem_iff.2 List.mem_cons_self
      · exact popHead_mem _ ls x (ih _ x hx)

theorem le_all_of_heads (m : Key) (ls : List (List Key)) (hs : ∀ l ∈ ls, SortedKeys l)
    (hh : ∀ y ∈ ls.filterMap List.head?, le m y) : ∀ x ∈ ls.flatten, le m x := by
  intro x hx
  simp only [List.mem_flatten] at hx
  obtain ⟨l, hl, hxl⟩ := hx
  cases l with
  | nil => cases hxl
  | cons y ys =>
    have hy : le m y := hh y (by
      simp only [List.mem_filterMap]
      exact ⟨y :: ys, hl, rfl⟩)
    simp only [List.mem_cons] at hxl
    rcases hxl with hxl | hxl
    · subst hxl; exact hy
    · have := hs _ hl
      unfold SortedKeys at this
      exact le_trans hy ((List.pairwise_cons.1 this).1 x hxl)

theorem kwayMerge_sorted : ∀ (fuel : Nat) (ls : List (List Key)), (∀ l ∈ ls, SortedKeys l) →
    SortedKeys (kwayMerge fuel ls) := by
  intro fuel
  induction fuel with
  | zero => intro ls _; simp [kwayMerge, SortedKeys]
  | succ fuel ih =>
    intro ls hs
    unfold kwayMerge
    cases hh : ls.filterMap List.head? with
    | nil => simp [SortedKeys]
    | cons y ys =>
      simp only []
      unfold SortedKeys
      rw [List.pairwise_cons]
      refine ⟨fun x hx => ?_, ih _ (popHead_sorted _ ls hs)⟩
      have hx' := popHead_mem _ ls x (kwayMerge_mem _ _ x hx)
      exact le_all_of_heads _ ls hs (fun z hz => (minKey_spec ys y).2 z (by rw [← hh]; exact hz)) x hx'

/-- **C20 (i)** multi-shard range scan: if every shard delivers its results in key order, the merged stream
    is a permutation of all per-shard results (nothing lost, nothing duplicated) and is in global key
    order — for any number of shards and any result sizes. -/
theorem C20_merge_sorted_union (ls : List (List Key)) (hs : ∀ l ∈ ls, SortedKeys l) :
    (kwayMerge ls.flatten.length ls).Perm ls.flatten ∧ SortedKeys (kwayMerge ls.flatten.length ls) :=
  ⟨kwayMerge_perm _ ls (Nat.le_refl _), kwayMerge_sorted _ ls hs⟩

example : kwayMerge 5 [[[97], [97, 47, 98]], [], [[98], [97, 47, 99]]] = [[97], [98], [97, 47, 98], [97, 47, 99]] := by
  decide

/-! ### the tie to the tree -/

/-- the facts the theorems above are instantiated with, as read from `/repo` on this run -/
theorem C20_on_tree : Facts.batcherRearmsTimerAfterSplit = true ∧ Facts.multiShardGetReturnsAfterError = true ∧
    Facts.readBatchFreshResponsePerAttempt = true ∧ Facts.writeBatchHandlePositional = true := by decide

/-- the batcher of the tree never leaves a batch waiting without a timer -/
theorem C20_tree_batcher_timer (linger maxReq maxBytes : Nat) (evs : List Ev) :
    TimerInv ⟨linger, maxReq, maxBytes, Facts.batcherRearmsTimerAfterSplit⟩
      (run ⟨linger, maxReq, maxBytes, Facts.batcherRearmsTimerAfterSplit⟩ evs) :=
  C20_open_batch_has_armed_timer _ C20_on_tree.1 evs

/-- the multi-shard get of the tree completes exactly once -/
theorem C20_tree_multi_shard_get (c : Cmp) (answers : List Ans) (hn : 0 < answers.length) (arr : List Ans)
    (hperm : arr.Perm answers) :
    (multiShardGetN Facts.multiShardGetReturnsAfterError c answers.length arr).panicked = false ∧
    (multiShardGetN Facts.multiShardGetReturnsAfterError c answers.length arr).sent =
      [if hasError answers then .failed else .value (best c arr)] := by
  rw [C20_on_tree.2.1]; exact C20_multi_shard_get_completes_once c answers hn arr hperm

end Oxia.C20
