import OxiaVerif.Model.Batch
import OxiaVerif.Facts

/-!
C20, the multi-shard list: "multi-shard list ... return the union of the per-shard results ... without loss or
duplication", "for every per-shard response timing and every placement of errors".

`List` starts one goroutine per shard; each sends what its stream delivers into one unbuffered channel, which is
closed when all of them have returned. The model: per-shard result lists (`shardResults`: batches of keys, an
error where the request or the stream fails, nothing after it) and a schedule that says which shard sends next.

* for every schedule, what has been received plus what the shards still hold is a permutation of everything
  the shards deliver (`runSched_perm`): nothing is lost, nothing is duplicated, nothing is invented;
* when the channel is closed (every shard has returned: nothing left), what the caller has received is a
  permutation of the concatenation of the per-shard results (`C20_list_union`), and within the results of one
  shard the order is the shard's own (`C20_list_keeps_shard_order`, as a sublist);
* one error per failing shard, and no key of a shard after its failure (`shardResults`).

Tied to the code by `ls.run`: the client's real `List` on a fake executor (requests that fail, streams that break,
empty shards, one shard through a partition key), compared with this model and with the union computed from the
script. That "the channel is closed" implies "every shard has returned" is a fact read from `List` (the closing
goroutine waits for all shards with a context that is never cancelled) plus a scripted run in which the caller
cancels its context while the shards are still sending (`ls.cancel`; genuine defect D-57, repaired: the wait ended
with the caller's context and a shard then sent on the closed channel).
-/
namespace Oxia.C20
open Oxia.Batch

theorem pull_perm {α : Type} (ls : List (List α)) (i : Nat) (a : α) (ls' : List (List α))
    (h : pull ls i = some (a, ls')) : List.Perm ls.flatten (a :: ls'.flatten) := by
  induction ls generalizing i ls' with
  | nil => simp [pull] at h
  | cons l rest ih =>
    cases i with
    | zero =>
      cases l with
      | nil => simp [pull] at h
      | cons b t =>
        simp [pull] at h
        obtain ⟨h1, h2⟩ := h
        subst h1; subst h2
        simp
    | succ j =>
      simp only [pull, Option.map_eq_some_iff] at h
      obtain ⟨⟨a', q⟩, hp, he⟩ := h
      simp only [Prod.mk.injEq] at he
      obtain ⟨h1, h2⟩ := he
      subst h1; subst h2
      have := ih j q hp
      simp only [List.flatten_cons]
      exact (List.Perm.append_left l this).trans (List.perm_middle)

/-- nothing lost, nothing duplicated, at every moment: received ++ still held ~ everything -/
theorem runSched_perm {α : Type} (sched : List Nat) : ∀ (ls : List (List α)),
    List.Perm ((runSched ls sched).1 ++ (runSched ls sched).2.flatten) ls.flatten := by
  induction sched with
  | nil => intro ls; simp [runSched]
  | cons i rest ih =>
    intro ls
    unfold runSched
    cases hp : pull ls i with
    | none => simpa using ih ls
    | some p =>
      obtain ⟨a, ls'⟩ := p
      simp only [List.cons_append]
      exact (List.Perm.cons a (ih ls')).trans (pull_perm ls i a ls' hp).symm

/-- **The union of the per-shard results**: when every shard has sent everything (the channel is closed), what
    the caller has received is a permutation of the per-shard result lists put together - for every order in
    which the shards send. -/
theorem C20_list_union {α : Type} (ls : List (List α)) (sched : List Nat)
    (hdone : (runSched ls sched).2.flatten = []) : List.Perm (runSched ls sched).1 ls.flatten := by
  have := runSched_perm sched ls
  rw [hdone] at this
  simpa using this

theorem pull_getD {α : Type} (ls : List (List α)) (i : Nat) (a : α) (ls' : List (List α))
    (h : pull ls i = some (a, ls')) :
    ls.getD i [] = a :: ls'.getD i [] ∧ ∀ j, j ≠ i → ls'.getD j [] = ls.getD j [] := by
  induction ls generalizing i ls' with
  | nil => simp [pull] at h
  | cons l rest ih =>
    cases i with
    | zero =>
      cases l with
      | nil => simp [pull] at h
      | cons b t =>
        simp [pull] at h
        obtain ⟨h1, h2⟩ := h
        subst h1; subst h2
        refine ⟨by simp, ?_⟩
        intro j hj
        cases j with
        | zero => exact absurd rfl hj
        | succ k => simp
    | succ k =>
      simp only [pull, Option.map_eq_some_iff] at h
      obtain ⟨⟨a', q⟩, hp, he⟩ := h
      simp only [Prod.mk.injEq] at he
      obtain ⟨h1, h2⟩ := he
      subst h1; subst h2
      obtain ⟨i1, i2⟩ := ih k q hp
      refine ⟨by simpa using i1, ?_⟩
      intro j hj
      cases j with
      | zero => simp
      | succ m => simpa using i2 m (by omega)

/-- what shard `i` contributes to the received results, in the order received -/
def fromShard {α : Type} (ls : List (List α)) : List Nat → Nat → List α
  | [], _ => []
  | j :: rest, i =>
    match pull ls j with
    | none => fromShard ls rest i
    | some (a, ls') => if j = i then a :: fromShard ls' rest i else fromShard ls' rest i

/-- **Per shard the order is the shard's own, and complete**: what shard `i` contributed, followed by what it
    still holds, is exactly its result list. -/
theorem C20_list_keeps_shard_order {α : Type} (sched : List Nat) : ∀ (ls : List (List α)) (i : Nat),
    fromShard ls sched i ++ (runSched ls sched).2.getD i [] = ls.getD i [] := by
  induction sched with
  | nil => intro ls i; simp [fromShard, runSched]
  | cons j rest ih =>
    intro ls i
    unfold fromShard runSched
    cases hp : pull ls j with
    | none => simpa using ih ls i
    | some p =>
      obtain ⟨a, ls'⟩ := p
      obtain ⟨g1, g2⟩ := pull_getD ls j a ls' hp
      by_cases hji : j = i
      · subst hji
        simp only [if_true, List.cons_append]
        rw [ih ls' j, g1]
      · simp only [hji, if_false]
        rw [ih ls' i, g2 i (by omega)]

/-- one error for a shard whose request fails or whose stream breaks, and nothing of that shard after it -/
theorem C20_list_shard_failure (items : List (Option (List String))) :
    shardResults none = [.err] ∧
    (shardResults (some items)).filter (· == .err) = (if items.contains none then [.err] else []) ∧
    ∀ r ∈ (shardResults (some items)).dropLast, r ≠ .err := by
  refine ⟨by simp [shardResults], ?_, ?_⟩
  · simp only [shardResults]
    induction items with
    | nil => simp [streamResults]
    | cons it rest ih =>
      cases it with
      | none => simp [streamResults]
      | some ks =>
        simp only [streamResults, List.filter_cons]
        have : (LRes.keys ks == LRes.err) = false := by simp
        simp only [this, Bool.false_eq_true, if_false]
        rw [ih]
        simp
  · simp only [shardResults]
    induction items with
    | nil => simp [streamResults]
    | cons it rest ih =>
      cases it with
      | none => simp [streamResults]
      | some ks =>
        intro r hr
        simp only [streamResults] at hr
        cases hrest : streamResults rest with
        | nil => rw [hrest] at hr; simp at hr
        | cons x xs =>
          rw [hrest] at hr
          simp only [List.dropLast_cons_cons, List.mem_cons] at hr
          rcases hr with hr | hr
          · subst hr; simp
          · exact ih r (by rw [hrest]; exact hr)

/-- a run: three shards, the second one's request fails, the third one's stream breaks after one batch; one of
    the interleavings -/
theorem C20_list_demo :
    let ls := [shardResults (some [some ["a", "b"], some ["c"]]), shardResults none, shardResults (some [some ["d"], none, some ["late"]])]
    let r := runSched ls [2, 0, 1, 2, 0, 0, 1]
    r.2.flatten = [] ∧ r.1 = [.keys ["d"], .keys ["a", "b"], .err, .err, .keys ["c"]] ∧
    listSummary r.1 = (["a", "b", "c", "d"], 2) := by decide

/-- the fact as regenerated from the tree -/
theorem C20_list_on_tree : Facts.listClosesChannelAfterAllShards = true := by decide

end Oxia.C20
