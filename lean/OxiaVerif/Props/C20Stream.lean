import OxiaVerif.Model.Batch
import OxiaVerif.Facts

/-!
C20, the write stream (`oxia/internal/write_stream.go`): requests and responses on the client's write
stream are matched by position only. Whatever the order of sends, callers that give up, responses and a
break of the stream, a caller that gets a response gets the response to its own request - because a request
whose caller has given up keeps its place in the queue (fact) and absorbs the late response.
-/
namespace Oxia.C20
open Oxia.Batch

/-- the wrapper's queue and the leader's unanswered requests are the same requests in the same order; after
    a break the queue is empty; every response delivered so far went to its own request -/
structure WInv (s : WSt) : Prop where
  same : s.broken = false → s.pending.map (·.1) = s.leader
  empty : s.broken = true → s.pending = []
  own : ∀ id r, (id, WOut.resp r) ∈ s.got → r = id

theorem winv_init : WInv {} :=
  ⟨fun _ => rfl, fun _ => rfl, fun _ _ h => by cases h⟩

theorem own_append_nonresp (s : WSt) (h : WInv s) (id0 : Nat) (o : WOut) (ho : ∀ r, o ≠ WOut.resp r) :
    ∀ id r, (id, WOut.resp r) ∈ s.got ++ [(id0, o)] → r = id := by
  intro id r hm
  rcases List.mem_append.1 hm with hm | hm
  · exact h.own id r hm
  · simp only [List.mem_singleton, Prod.mk.injEq] at hm
    exact absurd hm.2.symm (ho r)

theorem winv_step (s : WSt) (t : WTok) (h : WInv s) : WInv (wstep true s t) := by
  cases t with
  | send id =>
    cases hb : s.broken with
    | true =>
      have e : wstep true s (.send id) = { s with got := s.got ++ [(id, .eof)] } := by simp [wstep, hb]
      rw [e]
      refine ⟨fun hc => ?_, fun _ => h.empty hb, own_append_nonresp s h id .eof (fun r hc => by cases hc)⟩
      rw [hb] at hc; cases hc
    | false =>
      have e : wstep true s (.send id) = { s with pending := s.pending ++ [(id, true)], leader := s.leader ++ [id] } := by
        simp [wstep, hb]
      rw [e]
      refine ⟨fun _ => ?_, fun hc => ?_, h.own⟩
      · simp [h.same hb]
      · rw [hb] at hc; cases hc
  | sendTimeout id =>
    cases hb : s.broken with
    | true =>
      have e : wstep true s (.sendTimeout id) = { s with got := s.got ++ [(id, .eof)] } := by simp [wstep, hb]
      rw [e]
      refine ⟨fun hc => ?_, fun _ => h.empty hb, own_append_nonresp s h id .eof (fun r hc => by cases hc)⟩
      rw [hb] at hc; cases hc
    | false =>
      have e : wstep true s (.sendTimeout id) =
          ⟨s.pending ++ [(id, false)], s.leader ++ [id], s.got ++ [(id, .timeout)], s.broken⟩ := by
        simp [wstep, hb]
      rw [e]
      refine ⟨fun _ => ?_, fun hc => ?_, own_append_nonresp s h id .timeout (fun r hc => by cases hc)⟩
      · simp [h.same hb]
      · rw [hb] at hc; cases hc
  | brk =>
    have e : wstep true s .brk =
        ⟨[], s.leader, s.got ++ (s.pending.filter (·.2)).map (fun p => (p.1, WOut.eof)), true⟩ := rfl
    rw [e]
    refine ⟨fun hc => (by cases hc), fun _ => rfl, ?_⟩
    intro id r hm
    rcases List.mem_append.1 hm with hm | hm
    · exact h.own id r hm
    · simp only [List.mem_map, Prod.mk.injEq] at hm
      obtain ⟨_, _, _, hc⟩ := hm
      cases hc
  | resp =>
    cases hl : s.leader with
    | nil =>
      have e : wstep true s .resp = s := by simp [wstep, hl]
      rw [e]; exact h
    | cons r0 ls =>
      cases hp : s.pending with
      | nil =>
        have e : wstep true s .resp = { s with leader := ls } := by simp [wstep, hl, hp]
        rw [e]
        refine ⟨fun hc => ?_, fun _ => hp, h.own⟩
        have := h.same hc
        rw [hp, hl] at this; cases this
      | cons p ps =>
        obtain ⟨id0, waiting⟩ := p
        have hbf : s.broken = false := by
          cases hbb : s.broken with
          | false => rfl
          | true => have := h.empty hbb; rw [hp] at this; cases this
        have hs := h.same hbf
        rw [hp, hl] at hs
        simp only [List.map_cons, List.cons.injEq] at hs
        have e : wstep true s .resp =
            ⟨ps, ls, if waiting then s.got ++ [(id0, .resp r0)] else s.got, s.broken⟩ := by simp [wstep, hl, hp]
        rw [e]
        refine ⟨fun _ => hs.2, fun hc => ?_, ?_⟩
        · rw [hbf] at hc; cases hc
        · intro id r hm
          cases waiting with
          | false => exact h.own id r hm
          | true =>
            simp only [if_true] at hm
            rcases List.mem_append.1 hm with hm | hm
            · exact h.own id r hm
            · simp only [List.mem_singleton, Prod.mk.injEq, WOut.resp.injEq] at hm
              omega

theorem winv_run (toks : List WTok) : ∀ s, WInv s → WInv (toks.foldl (wstep true) s) := by
  induction toks with
  | nil => intro s h; exact h
  | cons t ts ih => intro s h; exact ih _ (winv_step s t h)

/-- **C20 (write stream)** whatever the order of sends, callers that give up, responses and a break of the
    stream: a caller that gets a response gets the response to its own request -/
theorem C20_stream_response_is_own (toks : List WTok) (id r : Nat)
    (h : (id, WOut.resp r) ∈ (wrun true toks).got) : r = id :=
  (winv_run toks {} winv_init).own id r h

/-- necessity (the seeded change): when a request whose caller has given up loses its place, its late
    response reaches the next request -/
theorem C20_stream_timed_out_request_keeps_its_place :
    (wrun false [.sendTimeout 1, .send 2, .resp, .resp]).got = [(1, .timeout), (2, .resp 1)] ∧
    (wrun true [.sendTimeout 1, .send 2, .resp, .resp]).got = [(1, .timeout), (2, .resp 2)] := by decide

theorem C20_stream_on_tree : Facts.writeStreamKeepsTimedOutRequests = true ∧
    Facts.rangeScanClosesChannelOnAllPaths = true := by decide

end Oxia.C20
