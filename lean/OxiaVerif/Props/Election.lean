import OxiaVerif.Props.ReplSafety
import OxiaVerif.Props.C05

/-!
Election: the coordinator's decision function (`chooseLeader`, what M-Repl's `elect` runs, what is tied to
`selectNewLeader` by a fact and compared with the real shard controller in the `k.*` scripts) put together
with A-Repl. `C05_best_log_wins` says what the function returns; here that is exactly what A-Repl's
`becomeLeader` step asks for, so every decision the function can take from answers of a majority fenced in
the current term is an enabled step, and leader completeness carries over to the node it installs.
-/
namespace Oxia.Election
open Oxia.Repl Oxia.ARepl Oxia.ReplSafety

/-- the answers a majority `S` of nodes fenced in the coordinator's current term gives to NewTerm -/
def answersOf (s : St) (S : List Nat) : List (Nat × (Int × Int)) := S.map fun i => (i, headOf (s.log i))

/-- the coordinator's decision function (`chooseLeader` = `selectNewLeader`, what M-Repl's `elect` runs and
    what is compared with the real shard controller) always produces an *enabled* `becomeLeader` step of
    A-Repl: for every reachable or unreachable state, every majority of nodes that answered in the current
    term, every preferred node. -/
theorem coordinator_choice_enables_becomeLeader (s : St) (S : List Nat) (want : Nat) (best : Nat × (Int × Int))
    (hnone : s.ldr s.ct = none) (hmaj : Maj s.n S) (hf : ∀ i ∈ S, s.term i = s.ct)
    (hc : chooseLeader want (answersOf s S) = some best) :
    pre s (.becomeLeader best.1 S) := by
  obtain ⟨hmem, hbest⟩ := C05.C05_best_log_wins want _ best hc
  unfold answersOf at hmem hbest
  rw [List.mem_map] at hmem
  obtain ⟨l, hl, hle⟩ := hmem
  subst hle
  refine ⟨hnone, hmaj, hl, hf, ?_⟩
  intro i hi
  exact hbest (i, headOf (s.log i)) (List.mem_map.mpr ⟨i, hi, rfl⟩)

/-- and a majority of answers always yields a choice -/
theorem coordinator_choice_exists (s : St) (S : List Nat) (want : Nat) (hmaj : Maj s.n S) :
    ∃ best, chooseLeader want (answersOf s S) = some best := by
  have hlen : 0 < S.length := by have := hmaj.2.2; omega
  cases S with
  | nil => simp at hlen
  | cons a as => exact ⟨_, rfl⟩


/-- **End to end for one election.** From every reachable state, whatever majority answered and whichever
    node the coordinator prefers: the node its decision function installs already holds every entry that the
    leader of an earlier term wrote itself and that a majority has acknowledged, at the same offset. -/
theorem coordinator_installs_leader_holding_acknowledged (n : Nat) (s : St) (hr : Reach n s)
    (S : List Nat) (want : Nat) (best : Nat × (Int × Int))
    (hnone : s.ldr s.ct = none) (hmaj : Maj s.n S) (hf : ∀ i ∈ S, s.term i = s.ct)
    (hc : chooseLeader want (answersOf s S) = some best)
    (t : Int) (o : Nat) (e : Entry) (hch : Chosen s t o) (hg : (s.G t)[o]? = some e) (he : e.term = t)
    (ht : t < s.ct) : (s.log best.1)[o]? = some e := by
  have hp := coordinator_choice_enables_becomeLeader s S want best hnone hmaj hf hc
  have hfrom : ReachFrom s (next s (.becomeLeader best.1 S)) := ReachFrom.step s _ ReachFrom.refl hp
  obtain ⟨k1, k2, k3⟩ := chosen_stable n s _ hr hfrom t o e hch hg
  have hterm : s.term best.1 = s.ct := hf best.1 hp.2.2.1
  have := current_leader_holds_acknowledged n _ k3 t o e k2 k1 he best.1
    (by simp [next, upd]) (by simp only [next]; rw [hterm]; exact ht)
  simpa [next] using this


/-- the hypotheses can be met: the demo run of `ReplSafety` up to the second election, where nodes 1 and 2
    have answered in term 2; 100 (term 1, offset 0) is acknowledged by {0, 1}; the coordinator, preferring
    node 2 (whose log is empty), still installs node 1 -/
theorem election_hypotheses_can_be_met :
    (match runOps (init 3) (demoOps.take 13) with
     | some s =>
        decide (s.ldr s.ct = none) && decide (Maj s.n [1, 2]) && decide (s.term 1 = s.ct ∧ s.term 2 = s.ct) &&
        decide ((chooseLeader 2 (answersOf s [1, 2])).map (·.1) = some 1) &&
        decide ((s.G 1)[0]? = some ⟨1, 100⟩) && decide (Maj s.n [0, 1]) && decide (0 < s.ack 0 1 ∧ 0 < s.ack 1 1) &&
        decide ((1 : Int) < s.ct) && decide (s.log 2 = []) && decide ((s.log 1)[0]? = some ⟨1, 100⟩)
     | none => false) = true := by decide

/-- the count `elect` asks for (`n / 2 + 1` answers out of `n` nodes asked) is a majority in A-Repl's sense -/
theorem needed_answers_are_a_majority (n : Nat) (S : List Nat) (hnd : S.Nodup) (hin : ∀ i ∈ S, i < n)
    (hcount : n / 2 + 1 ≤ S.length) : Maj n S := by
  refine ⟨hnd, hin, ?_⟩
  omega

/-- and fewer answers are not: an election that goes on with fewer could install two leaders from disjoint sets -/
theorem fewer_answers_are_no_majority (n : Nat) (S : List Nat) (hcount : S.length < n / 2 + 1) : ¬ Maj n S := by
  intro h
  have := h.2.2
  omega

end Oxia.Election
