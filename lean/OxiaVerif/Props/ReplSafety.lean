import OxiaVerif.Lemmas.ARepl
import OxiaVerif.Props.C01

/-!
Safety of the replication protocol (A-Repl, fixed ensemble): **leader completeness for acknowledged
writes** — an entry that the leader of term `t` wrote in its own term and that a majority has acknowledged
in term `t` is in the log of every leader of every later term, at the same offset. It is the core of C01
(acknowledged writes survive elections) and of C02 (what a leader shows was not rolled back), proved for
every reachable state of A-Repl: any number of nodes, terms, elections, writes, restarts, any interleaving
of the steps, acknowledgements that arrive after the follower has moved on to a later term.

The proof is the usual one for protocols of this family, by an inductive invariant over the history state:
* `kept`  an acknowledged own-term entry stays in the acknowledging node's log until a leader of a later
          term that does not hold it takes the node over;
* `safe`  if the leader of a later term does not hold an own-term entry of term `t` at its offset, that
          offset can no longer be acknowledged by a majority in term `t` (the fencing majority of the later
          term has not acknowledged it and never will);
plus log matching in the form "every log is cut from the per-term logs" (`Conforms`), which the attach step
preserves by C03 (`C03_attach_compatible_general`) outside the case of known finding D-44.
-/
namespace Oxia.ReplSafety
open Oxia.Repl Oxia.C03 Oxia.ARepl

structure Inv (s : St) : Prop where
  ct0 : 0 ≤ s.ct
  termLe : ∀ i, s.term i ≤ s.ct
  ldrBound : ∀ t l, s.ldr t = some l → 0 ≤ t ∧ t ≤ s.ct
  gNone : ∀ t, s.ldr t = none → s.G t = []
  lead : ∀ i, s.leading i = true → s.ldr (s.term i) = some i ∧ s.log i = s.G (s.term i)
  attd : ∀ f, s.att f = true →
    (∃ l, s.ldr (s.term f) = some l ∧ l ≠ f) ∧ s.log f = (s.G (s.term f)).take (s.log f).length
  confLog : ∀ i, Conforms s.G (s.log i)
  confG : ∀ t, Conforms s.G (s.G t)
  gTerms : ∀ t e, e ∈ s.G t → 0 ≤ e.term ∧ e.term ≤ t
  gSorted : ∀ t, TermsSorted (s.G t)
  ackOk : ∀ i t, 0 < s.ack i t → s.ack i t ≤ (s.G t).length ∧ t ≤ s.term i ∧
    (s.term i = t → s.ack i t ≤ (s.log i).length ∧ s.log i = (s.G t).take (s.log i).length)
  ackFresh : ∀ f, s.att f = false → s.ldr (s.term f) ≠ some f → s.ack f (s.term f) = 0
  kept : ∀ i t o e, o < s.ack i t → (s.G t)[o]? = some e → e.term = t →
    (s.log i)[o]? = some e ∨ ∃ t2, t < t2 ∧ t2 ≤ s.term i ∧ s.ldr t2 ≠ none ∧ (s.G t2)[o]? ≠ some e
  safe : ∀ t t2 o e, t < t2 → s.ldr t2 ≠ none → (s.G t)[o]? = some e → e.term = t →
    (s.G t2)[o]? ≠ some e → ¬ Choosable s t o
  fenceQ : ∀ t, s.ldr t ≠ none → ∃ S, Maj s.n S ∧ ∀ i ∈ S, t ≤ s.term i
  ehOk : ∀ t, s.ldr t ≠ none → ∃ m, s.eh t = headOf ((s.G t).take m)

theorem inv_init (n : Nat) : Inv (init n) := by
  refine { ct0 := by simp [init], termLe := by intro i; simp [init], ldrBound := by intro t l h; simp [init] at h,
           gNone := by intro t _; rfl, lead := by intro i h; simp [init] at h, attd := by intro f h; simp [init] at h,
           confLog := ?_, confG := ?_, gTerms := by intro t e h; simp [init] at h, gSorted := ?_,
           ackOk := by intro i t h; simp [init] at h, ackFresh := by intro f _ _; rfl,
           kept := by intro i t o e h; simp [init] at h, safe := by intro t t2 o e _ h; simp [init] at h,
           fenceQ := by intro t h; simp [init] at h, ehOk := by intro t h; simp [init] at h }
  · intro i j e h; simp [init] at h
  · intro t j e h; simp [init] at h
  · intro t i j a b _ h; simp [init] at h

/-! ### the easy steps -/

theorem inv_newElection (s : St) (h : Inv s) : Inv (next s .newElection) := by
  refine { ct0 := ?_, termLe := ?_, ldrBound := ?_, gNone := h.gNone, lead := h.lead, attd := h.attd,
           confLog := h.confLog, confG := h.confG, gTerms := h.gTerms, gSorted := h.gSorted, ackOk := h.ackOk,
           ackFresh := h.ackFresh, kept := h.kept, safe := h.safe, fenceQ := h.fenceQ, ehOk := h.ehOk }
  · have := h.ct0; show 0 ≤ s.ct + 1; omega
  · intro i; have := h.termLe i; show s.term i ≤ s.ct + 1; omega
  · intro t l hl; have := h.ldrBound t l hl; show 0 ≤ t ∧ t ≤ s.ct + 1; omega

theorem inv_restart (s : St) (i : Nat) (h : Inv s) : Inv (next s (.restart i)) := by
  refine { ct0 := h.ct0, termLe := h.termLe, ldrBound := h.ldrBound, gNone := h.gNone, lead := ?_, attd := h.attd,
           confLog := h.confLog, confG := h.confG, gTerms := h.gTerms, gSorted := h.gSorted, ackOk := h.ackOk,
           ackFresh := h.ackFresh, kept := h.kept, safe := h.safe, fenceQ := h.fenceQ, ehOk := h.ehOk }
  intro j hj
  have hj' : upd s.leading i false j = true := hj
  by_cases hji : j = i
  · subst hji; simp at hj'
  · rw [upd_other _ _ _ _ hji] at hj'; exact h.lead j hj'

theorem inv_fence (s : St) (i : Nat) (h : Inv s) (hp : pre s (.fence i)) : Inv (next s (.fence i)) := by
  have hp : s.term i < s.ct := hp
  have hterm : ∀ j, (next s (.fence i)).term j = if j = i then s.ct else s.term j := fun j => rfl
  have hterm_ne : ∀ j, j ≠ i → (next s (.fence i)).term j = s.term j := fun j hj => by rw [hterm, if_neg hj]
  have hterm_i : (next s (.fence i)).term i = s.ct := by rw [hterm, if_pos rfl]
  have hge : ∀ j, s.term j ≤ (next s (.fence i)).term j := by
    intro j
    by_cases hj : j = i
    · subst hj; rw [hterm_i]; omega
    · rw [hterm_ne j hj]; omega
  refine { ct0 := h.ct0, termLe := ?_, ldrBound := h.ldrBound, gNone := h.gNone, lead := ?_, attd := ?_,
           confLog := h.confLog, confG := h.confG, gTerms := h.gTerms, gSorted := h.gSorted, ackOk := ?_,
           ackFresh := ?_, kept := ?_, safe := ?_, fenceQ := ?_, ehOk := h.ehOk }
  · intro j
    by_cases hj : j = i
    · subst hj; rw [hterm_i]; exact Int.le_refl _
    · rw [hterm_ne j hj]; exact h.termLe j
  · intro j hj
    have hj' : upd s.leading i false j = true := hj
    by_cases hji : j = i
    · subst hji; simp at hj'
    · rw [upd_other _ _ _ _ hji] at hj'
      rw [hterm_ne j hji]; exact h.lead j hj'
  · intro f hf
    have hf' : upd s.att i false f = true := hf
    by_cases hfi : f = i
    · subst hfi; simp at hf'
    · rw [upd_other _ _ _ _ hfi] at hf'
      rw [hterm_ne f hfi]; exact h.attd f hf'
  · intro j t hpos
    have hpos' : 0 < s.ack j t := hpos
    obtain ⟨h1, h2, h3⟩ := h.ackOk j t hpos'
    refine ⟨h1, Int.le_trans h2 (hge j), ?_⟩
    by_cases hj : j = i
    · subst hj; rw [hterm_i]; intro hc; omega
    · rw [hterm_ne j hj]; exact h3
  · intro f hf hl
    have hf' : upd s.att i false f = false := hf
    by_cases hfi : f = i
    · subst hfi
      rw [hterm_i]
      show s.ack f s.ct = 0
      apply Classical.byContradiction
      intro hne
      have := (h.ackOk f s.ct (by omega)).2.1
      omega
    · rw [upd_other _ _ _ _ hfi] at hf'
      rw [hterm_ne f hfi] at hl ⊢
      exact h.ackFresh f hf' hl
  · intro j t o e ho hg he
    rcases h.kept j t o e ho hg he with h1 | ⟨t2, h1, h2, h3, h4⟩
    · exact .inl h1
    · exact .inr ⟨t2, h1, Int.le_trans h2 (hge j), h3, h4⟩
  · intro t t2 o e htt hl hg he hne hch
    apply h.safe t t2 o e htt hl hg he hne
    obtain ⟨Q, hQ, hall⟩ := hch
    refine ⟨Q, hQ, fun j hj => ?_⟩
    rcases hall j hj with h1 | h1
    · exact .inl h1
    · exact .inr (Int.le_trans (hge j) h1)
  · intro t hl
    obtain ⟨S, hS, hall⟩ := h.fenceQ t hl
    exact ⟨S, hS, fun j hj => Int.le_trans (hall j hj) (hge j)⟩

/-! ### a client write on the leader -/

theorem getElem?_append_new {α : Type} (L : List α) (a : α) : (L ++ [a])[L.length]? = some a := by
  simp

theorem inv_write (s : St) (l id : Nat) (h : Inv s) (hp : pre s (.write l id)) : Inv (next s (.write l id)) := by
  have hp : s.leading l = true := hp
  obtain ⟨hldr, hlog⟩ := h.lead l hp
  -- abbreviations are avoided: everything is stated with `s.log l` and `s.term l`
  have hG : ∀ t, (next s (.write l id)).G t = if t = s.term l then s.log l ++ [{ term := s.term l, id := id }] else s.G t := fun t => rfl
  have hGT : (next s (.write l id)).G (s.term l) = s.log l ++ [{ term := s.term l, id := id }] := by rw [hG, if_pos rfl]
  have hGne : ∀ t, t ≠ s.term l → (next s (.write l id)).G t = s.G t := fun t ht => by rw [hG, if_neg ht]
  have hlogl : (next s (.write l id)).log l = s.log l ++ [{ term := s.term l, id := id }] := by
    show upd s.log l _ l = _; simp
  have hlogne : ∀ j, j ≠ l → (next s (.write l id)).log j = s.log j := fun j hj => upd_other _ _ _ _ hj
  have hack : ∀ j t, (next s (.write l id)).ack j t = if j = l ∧ t = s.term l then (s.log l).length + 1 else s.ack j t := fun j t => rfl
  -- old per-term logs are prefixes of the new ones
  have hGget : ∀ t o, o < (s.G t).length → ((next s (.write l id)).G t)[o]? = (s.G t)[o]? := by
    intro t o ho
    by_cases ht : t = s.term l
    · subst ht; rw [hGT, ← hlog] at *
      rw [List.getElem?_append_left ho]
    · rw [hGne t ht]
  have hGtake : ∀ t n, n ≤ (s.G t).length → ((next s (.write l id)).G t).take n = (s.G t).take n := by
    intro t n hn
    by_cases ht : t = s.term l
    · subst ht; rw [hGT, ← hlog] at *
      exact List.take_append_of_le_length hn
    · rw [hGne t ht]
  have hlift : ∀ X, Conforms s.G X → Conforms (next s (.write l id)).G X := by
    intro X hX j e he
    have h1 := hX j e he
    have hj := getElemOpt_lt he
    have hlen : j + 1 ≤ (s.G e.term).length := by
      have := congrArg List.length h1
      rw [List.length_take, List.length_take] at this
      omega
    rw [hGtake e.term (j + 1) hlen]; exact h1
  have hT0 := (h.ldrBound (s.term l) l hldr).1
  have hterm : (next s (.write l id)).term = s.term := rfl
  have hldrE : (next s (.write l id)).ldr = s.ldr := rfl
  have hleadE : (next s (.write l id)).leading = s.leading := rfl
  have hattE : (next s (.write l id)).att = s.att := rfl
  have hehE : (next s (.write l id)).eh = s.eh := rfl
  have hconfNew : Conforms (next s (.write l id)).G (s.log l ++ [{ term := s.term l, id := id }]) := by
    intro j e he
    by_cases hj : j < (s.log l).length
    · rw [List.getElem?_append_left hj] at he
      have h1 := hlift _ (h.confLog l) j e he
      rw [List.take_append_of_le_length (by omega)]; exact h1
    · have hjl := getElemOpt_lt he
      rw [List.length_append, List.length_singleton] at hjl
      have hje : j = (s.log l).length := by omega
      subst hje
      rw [getElem?_append_new] at he
      cases he
      rw [hGT]
  refine { ct0 := h.ct0, termLe := h.termLe, ldrBound := h.ldrBound, gNone := ?_, lead := ?_, attd := ?_,
           confLog := ?_, confG := ?_, gTerms := ?_, gSorted := ?_, ackOk := ?_,
           ackFresh := ?_, kept := ?_, safe := ?_, fenceQ := h.fenceQ, ehOk := ?_ }
  all_goals (try simp only [hterm, hldrE, hleadE, hattE, hehE])
  · -- gNone
    intro t ht
    have hne : t ≠ s.term l := by intro hc; subst hc; rw [hldr] at ht; cases ht
    rw [hGne t hne]; exact h.gNone t ht
  · -- lead
    intro j hj
    obtain ⟨h1, h2⟩ := h.lead j hj
    refine ⟨h1, ?_⟩
    by_cases hjl : j = l
    · subst hjl; rw [hlogl, hGT]
    · have hne : s.term j ≠ s.term l := by
        intro hc; rw [hc, hldr] at h1; cases h1; exact hjl rfl
      rw [hlogne j hjl, hGne _ hne]; exact h2
  · -- attd
    intro f hf
    obtain ⟨⟨l0, h1, h1b⟩, h2⟩ := h.attd f hf
    have hfl : f ≠ l := by
      intro hc; subst hc; rw [hldr] at h1; cases h1; exact h1b rfl
    refine ⟨⟨l0, h1, h1b⟩, ?_⟩
    rw [hlogne f hfl]
    have hlen : (s.log f).length ≤ (s.G (s.term f)).length := by
      have := congrArg List.length h2
      rw [List.length_take] at this; omega
    rw [hGtake _ _ hlen]; exact h2
  · -- confLog
    intro j
    by_cases hjl : j = l
    · subst hjl; rw [hlogl]; exact hconfNew
    · rw [hlogne j hjl]; exact hlift _ (h.confLog j)
  · -- confG
    intro t
    by_cases ht : t = s.term l
    · subst ht; rw [hGT]; exact hconfNew
    · rw [hGne t ht]; exact hlift _ (h.confG t)
  · -- gTerms
    intro t e he
    by_cases ht : t = s.term l
    · subst ht
      rw [hGT] at he
      rcases List.mem_append.1 he with h1 | h1
      · rw [hlog] at h1; exact h.gTerms _ e h1
      · simp at h1; subst h1; exact ⟨hT0, Int.le_refl _⟩
    · rw [hGne t ht] at he; exact h.gTerms t e he
  · -- gSorted
    intro t
    by_cases ht : t = s.term l
    · subst ht
      rw [hGT]
      intro i j a b hij ha hb
      have hjl := getElemOpt_lt hb
      rw [List.length_append, List.length_singleton] at hjl
      by_cases hj : j < (s.log l).length
      · rw [List.getElem?_append_left hj] at hb
        rw [List.getElem?_append_left (by omega)] at ha
        rw [hlog] at ha hb
        exact h.gSorted _ i j a b hij ha hb
      · have hje : j = (s.log l).length := by omega
        subst hje
        rw [getElem?_append_new] at hb
        cases hb
        by_cases hi : i < (s.log l).length
        · rw [List.getElem?_append_left hi, hlog] at ha
          exact (h.gTerms _ a (List.mem_of_getElem? ha)).2
        · have hie : i = (s.log l).length := by omega
          subst hie
          rw [getElem?_append_new] at ha
          cases ha; exact Int.le_refl _
    · rw [hGne t ht]; exact h.gSorted t
  · -- ackOk
    intro j t hpos
    rw [hack] at hpos ⊢
    by_cases hc : j = l ∧ t = s.term l
    · obtain ⟨hj, ht⟩ := hc
      subst hj; subst ht
      rw [if_pos ⟨rfl, rfl⟩, hGT, hlogl]
      refine ⟨by simp, Int.le_refl _, fun _ => ⟨by simp, ?_⟩⟩
      rw [List.take_length]
    · rw [if_neg hc] at hpos ⊢
      obtain ⟨h1, h2, h3⟩ := h.ackOk j t hpos
      have hmono : (s.G t).length ≤ ((next s (.write l id)).G t).length := by
        by_cases ht : t = s.term l
        · subst ht; rw [hGT, ← hlog]; simp
        · rw [hGne t ht]; exact Nat.le_refl _
      refine ⟨by omega, h2, fun hjt => ?_⟩
      obtain ⟨h3a, h3b⟩ := h3 hjt
      have hjl : j ≠ l := by
        intro hjl; subst hjl; exact hc ⟨rfl, hjt.symm⟩
      rw [hlogne j hjl]
      refine ⟨h3a, ?_⟩
      have hlen : (s.log j).length ≤ (s.G t).length := by
        have := congrArg List.length h3b
        rw [List.length_take] at this; omega
      rw [hGtake _ _ hlen]; exact h3b
  · -- ackFresh
    intro f hf hl
    have hfl : f ≠ l := by intro hc; subst hc; exact hl hldr
    rw [hack, if_neg (fun hc => hfl hc.1)]
    exact h.ackFresh f hf hl
  · -- kept
    intro j t o e ho hg he
    rw [hack] at ho
    by_cases hc : j = l ∧ t = s.term l
    · obtain ⟨hj, ht⟩ := hc
      subst hj; subst ht
      left
      rw [hlogl]; rw [hGT] at hg; exact hg
    · rw [if_neg hc] at ho
      have hpos : 0 < s.ack j t := by omega
      have hoG : o < (s.G t).length := by have := (h.ackOk j t hpos).1; omega
      rw [hGget t o hoG] at hg
      rcases h.kept j t o e ho hg he with h1 | ⟨t2, h1, h2, h3, h4⟩
      · left
        by_cases hjl : j = l
        · subst hjl
          rw [hlogl, List.getElem?_append_left (getElemOpt_lt h1)]; exact h1
        · rw [hlogne j hjl]; exact h1
      · right
        refine ⟨t2, h1, h2, h3, ?_⟩
        by_cases ht2 : t2 = s.term l
        · subst ht2
          rw [hGT]
          intro hc2
          by_cases hol : o < (s.log l).length
          · rw [List.getElem?_append_left hol, hlog] at hc2; exact h4 hc2
          · have hlt := getElemOpt_lt hc2
            rw [List.length_append, List.length_singleton] at hlt
            have hoe : o = (s.log l).length := by omega
            subst hoe
            rw [getElem?_append_new] at hc2
            cases hc2
            simp only [] at he
            omega
        · rw [hGne t2 ht2]; exact h4
  · -- safe
    intro t t2 o e htt hl2 hg he hne hch
    by_cases ht : t = s.term l
    · subst ht
      have ht2 : t2 ≠ s.term l := by omega
      rw [hGne t2 ht2] at hne
      rw [hGT] at hg
      by_cases hol : o < (s.log l).length
      · -- an old entry of this term
        rw [List.getElem?_append_left hol, hlog] at hg
        apply h.safe _ t2 o e htt hl2 hg he hne
        obtain ⟨Q, hQ, hall⟩ := hch
        refine ⟨Q, hQ, fun j hj => ?_⟩
        by_cases hjl : j = l
        · subst hjl; exact .inr (Int.le_refl _)
        · rcases hall j hj with h1 | h1
          · rw [hack, if_neg (fun hc => hjl hc.1)] at h1; exact .inl h1
          · exact .inr h1
      · -- the new entry: the fencing majority of the later term has not acknowledged it
        have hlt := getElemOpt_lt hg
        rw [List.length_append, List.length_singleton] at hlt
        have hoe : o = (s.log l).length := by omega
        obtain ⟨Q, hQ, hall⟩ := hch
        obtain ⟨S, hS, hSall⟩ := h.fenceQ t2 hl2
        obtain ⟨x, hxQ, hxS⟩ := maj_inter hQ hS
        have hx2 := hSall x hxS
        rcases hall x hxQ with h1 | h1
        · rw [hack] at h1
          by_cases hxl : x = l
          · subst hxl; omega
          · rw [if_neg (fun hc => hxl hc.1)] at h1
            have := (h.ackOk x (s.term l) (by omega)).1
            rw [← hlog] at this
            omega
        · rw [hterm] at h1; omega
    · rw [hGne t ht] at hg
      have hne' : (s.G t2)[o]? ≠ some e := by
        by_cases ht2 : t2 = s.term l
        · subst ht2
          intro hc2
          apply hne
          rw [hGget _ o (getElemOpt_lt hc2)]; exact hc2
        · rw [hGne t2 ht2] at hne; exact hne
      apply h.safe t t2 o e htt hl2 hg he hne'
      obtain ⟨Q, hQ, hall⟩ := hch
      refine ⟨Q, hQ, fun j hj => ?_⟩
      rcases hall j hj with h1 | h1
      · rw [hack, if_neg (fun hc => ht hc.2)] at h1; exact .inl h1
      · exact .inr h1
  · -- ehOk
    intro t hl
    obtain ⟨m, hm⟩ := h.ehOk t hl
    by_cases ht : t = s.term l
    · subst ht
      by_cases hml : m ≤ (s.G (s.term l)).length
      · exact ⟨m, by rw [hGtake _ _ hml]; exact hm⟩
      · refine ⟨(s.G (s.term l)).length, ?_⟩
        rw [hGtake _ _ (Nat.le_refl _), List.take_length]
        rw [List.take_of_length_le (by omega)] at hm
        exact hm
    · exact ⟨m, by rw [hGne t ht]; exact hm⟩

/-! ### an entry reaches an attached follower -/

theorem inv_append (s : St) (l f : Nat) (h : Inv s) (hp : pre s (.append l f)) : Inv (next s (.append l f)) := by
  obtain ⟨hlead, hfl, hterm_f, hatt, hlen⟩ : s.leading l = true ∧ f ≠ l ∧ s.term f = s.term l ∧ s.att f = true ∧
      (s.log f).length < (s.log l).length := hp
  obtain ⟨hldr, hlog⟩ := h.lead l hlead
  obtain ⟨⟨l0, hl0, hl0f⟩, hpre⟩ := h.attd f hatt
  rw [hterm_f] at hpre hl0
  have hget : (s.log l)[(s.log f).length]? = some ((s.log l)[(s.log f).length]'hlen) := List.getElem?_eq_getElem hlen
  generalize hE : (s.log l)[(s.log f).length]'hlen = e at hget
  have hnext : next s (.append l f) =
      { s with log := upd s.log f (s.log f ++ [e]), ack := setAck s.ack f (s.term l) ((s.log f).length + 1) } := by
    show (match (s.log l)[(s.log f).length]? with
      | some e => ({ s with log := upd s.log f (s.log f ++ [e]), ack := setAck s.ack f (s.term l) ((s.log f).length + 1) } : St)
      | none => s) = _
    rw [hget]
  rw [hnext]
  -- the follower's new log is the next longer prefix of the leader's
  have hF' : s.log f ++ [e] = (s.G (s.term l)).take ((s.log f).length + 1) := by
    rw [← hlog, take_succ_of_getElem? (s.log l) (s.log f).length e hget, hlog, ← hpre]
  have hF'len : (s.log f ++ [e]).length = (s.log f).length + 1 := by simp
  have hlenG : (s.log f).length + 1 ≤ (s.G (s.term l)).length := by rw [← hlog]; omega
  refine { ct0 := h.ct0, termLe := h.termLe, ldrBound := h.ldrBound, gNone := h.gNone, lead := ?_, attd := ?_,
           confLog := ?_, confG := h.confG, gTerms := h.gTerms, gSorted := h.gSorted, ackOk := ?_,
           ackFresh := ?_, kept := ?_, safe := ?_, fenceQ := h.fenceQ, ehOk := h.ehOk }
  · -- lead
    intro j hj
    have hj' : s.leading j = true := hj
    obtain ⟨h1, h2⟩ := h.lead j hj'
    have hjf : j ≠ f := by
      intro hc; subst hc
      rw [hterm_f, hl0] at h1; cases h1; exact hl0f rfl
    exact ⟨h1, by show upd s.log f _ j = _; rw [upd_other _ _ _ _ hjf]; exact h2⟩
  · -- attd
    intro f0 hf0
    have hf0' : s.att f0 = true := hf0
    obtain ⟨h1, h2⟩ := h.attd f0 hf0'
    refine ⟨h1, ?_⟩
    show upd s.log f _ f0 = (s.G (s.term f0)).take (upd s.log f _ f0).length
    by_cases hc : f0 = f
    · subst hc; rw [upd_same, hterm_f, hF'len]; exact hF'
    · rw [upd_other _ _ _ _ hc]; exact h2
  · -- confLog
    intro j
    show Conforms s.G (upd s.log f _ j)
    by_cases hc : j = f
    · subst hc; rw [upd_same, hF']; exact conforms_take (h.confG _) _
    · rw [upd_other _ _ _ _ hc]; exact h.confLog j
  · -- ackOk
    intro j t hpos
    have hpos' : 0 < setAck s.ack f (s.term l) ((s.log f).length + 1) j t := hpos
    show setAck s.ack f (s.term l) ((s.log f).length + 1) j t ≤ (s.G t).length ∧ t ≤ s.term j ∧
      (s.term j = t → setAck s.ack f (s.term l) ((s.log f).length + 1) j t ≤ (upd s.log f (s.log f ++ [e]) j).length ∧
        upd s.log f (s.log f ++ [e]) j = (s.G t).take (upd s.log f (s.log f ++ [e]) j).length)
    by_cases hc : j = f ∧ t = s.term l
    · obtain ⟨hj, ht⟩ := hc
      subst hj; subst ht
      rw [setAck_same, upd_same, hF'len]
      exact ⟨hlenG, by omega, fun _ => ⟨Nat.le_refl _, hF'⟩⟩
    · rw [setAck_other _ _ _ _ _ _ hc] at hpos' ⊢
      obtain ⟨h1, h2, h3⟩ := h.ackOk j t hpos'
      refine ⟨h1, h2, fun hjt => ?_⟩
      have hjf : j ≠ f := by
        intro hjf; subst hjf; exact hc ⟨rfl, by omega⟩
      rw [upd_other _ _ _ _ hjf]; exact h3 hjt
  · -- ackFresh
    intro f0 hf0 hl
    have hf0' : s.att f0 = false := hf0
    have hne : f0 ≠ f := by intro hc; subst hc; rw [hatt] at hf0'; cases hf0'
    show setAck s.ack f (s.term l) _ f0 (s.term f0) = 0
    rw [setAck_other _ _ _ _ _ _ (fun hc => hne hc.1)]
    exact h.ackFresh f0 hf0' hl
  · -- kept
    intro j t o e0 ho hg he
    have ho' : o < setAck s.ack f (s.term l) ((s.log f).length + 1) j t := ho
    show (upd s.log f (s.log f ++ [e]) j)[o]? = some e0 ∨ _
    by_cases hc : j = f ∧ t = s.term l
    · obtain ⟨hj, ht⟩ := hc
      subst hj; subst ht
      rw [setAck_same] at ho'
      left
      rw [upd_same, hF', List.getElem?_take, if_pos ho']; exact hg
    · rw [setAck_other _ _ _ _ _ _ hc] at ho'
      rcases h.kept j t o e0 ho' hg he with h1 | h1
      · left
        by_cases hjf : j = f
        · subst hjf
          rw [upd_same, List.getElem?_append_left (getElemOpt_lt h1)]; exact h1
        · rw [upd_other _ _ _ _ hjf]; exact h1
      · exact .inr h1
  · -- safe
    intro t t2 o e0 htt hl2 hg he hne hch
    apply h.safe t t2 o e0 htt hl2 hg he hne
    obtain ⟨Q, hQ, hall⟩ := hch
    refine ⟨Q, hQ, fun j hj => ?_⟩
    rcases hall j hj with h1 | h1
    · have h1' : o < setAck s.ack f (s.term l) ((s.log f).length + 1) j t := h1
      by_cases hc : j = f ∧ t = s.term l
      · obtain ⟨hj2, ht⟩ := hc
        subst hj2; subst ht
        exact .inr (by omega)
      · rw [setAck_other _ _ _ _ _ _ hc] at h1'; exact .inl h1'
    · exact .inr h1

/-! ### a follower is attached (truncated if the decision says so) -/

/-- the common part: the follower's log becomes `X`, a prefix of the leader's log that keeps every entry
    of the old log that the leader holds at the same offset -/
theorem inv_attach_core (s : St) (l f : Nat) (X : List Entry) (h : Inv s)
    (hlead : s.leading l = true) (hfl : f ≠ l) (hterm_f : s.term f = s.term l) (hatt : s.att f = false)
    (hXpre : X = (s.G (s.term l)).take X.length) (hXlen : X.length ≤ (s.G (s.term l)).length)
    (hkeep : ∀ (o : Nat) (e : Entry), (s.log f)[o]? = some e → (s.G (s.term l))[o]? = some e → X[o]? = some e) :
    Inv { s with log := upd s.log f X, att := upd s.att f true, ack := setAck s.ack f (s.term l) X.length } := by
  obtain ⟨hldr, hlog⟩ := h.lead l hlead
  have hack0 : s.ack f (s.term l) = 0 := by
    have := h.ackFresh f hatt (by rw [hterm_f, hldr]; intro hc; cases hc; exact hfl rfl)
    rw [hterm_f] at this; exact this
  refine { ct0 := h.ct0, termLe := h.termLe, ldrBound := h.ldrBound, gNone := h.gNone, lead := ?_, attd := ?_,
           confLog := ?_, confG := h.confG, gTerms := h.gTerms, gSorted := h.gSorted, ackOk := ?_,
           ackFresh := ?_, kept := ?_, safe := ?_, fenceQ := h.fenceQ, ehOk := h.ehOk }
  · -- lead
    intro j hj
    have hj' : s.leading j = true := hj
    obtain ⟨h1, h2⟩ := h.lead j hj'
    have hjf : j ≠ f := by
      intro hc; subst hc
      rw [hterm_f, hldr] at h1; cases h1; exact hfl rfl
    exact ⟨h1, by show upd s.log f _ j = _; rw [upd_other _ _ _ _ hjf]; exact h2⟩
  · -- attd
    intro f0 hf0
    have hf0' : upd s.att f true f0 = true := hf0
    show (∃ l0, s.ldr (s.term f0) = some l0 ∧ l0 ≠ f0) ∧ upd s.log f X f0 = (s.G (s.term f0)).take (upd s.log f X f0).length
    by_cases hc : f0 = f
    · subst hc
      rw [upd_same, hterm_f]
      exact ⟨⟨l, hldr, fun hc => hfl hc.symm⟩, hXpre⟩
    · rw [upd_other _ _ _ _ hc] at hf0' ⊢
      exact h.attd f0 hf0'
  · -- confLog
    intro j
    show Conforms s.G (upd s.log f X j)
    by_cases hc : j = f
    · subst hc; rw [upd_same, hXpre]; exact conforms_take (h.confG _) _
    · rw [upd_other _ _ _ _ hc]; exact h.confLog j
  · -- ackOk
    intro j t hpos
    have hpos' : 0 < setAck s.ack f (s.term l) X.length j t := hpos
    show setAck s.ack f (s.term l) X.length j t ≤ (s.G t).length ∧ t ≤ s.term j ∧
      (s.term j = t → setAck s.ack f (s.term l) X.length j t ≤ (upd s.log f X j).length ∧
        upd s.log f X j = (s.G t).take (upd s.log f X j).length)
    by_cases hc : j = f ∧ t = s.term l
    · obtain ⟨hj, ht⟩ := hc
      subst hj; subst ht
      rw [setAck_same, upd_same]
      exact ⟨hXlen, by omega, fun _ => ⟨Nat.le_refl _, hXpre⟩⟩
    · rw [setAck_other _ _ _ _ _ _ hc] at hpos' ⊢
      obtain ⟨h1, h2, h3⟩ := h.ackOk j t hpos'
      refine ⟨h1, h2, fun hjt => ?_⟩
      have hjf : j ≠ f := by
        intro hjf; subst hjf; exact hc ⟨rfl, by omega⟩
      rw [upd_other _ _ _ _ hjf]; exact h3 hjt
  · -- ackFresh
    intro f0 hf0 hl
    have hf0' : upd s.att f true f0 = false := hf0
    have hne : f0 ≠ f := by intro hc; subst hc; simp at hf0'
    rw [upd_other _ _ _ _ hne] at hf0'
    show setAck s.ack f (s.term l) _ f0 (s.term f0) = 0
    rw [setAck_other _ _ _ _ _ _ (fun hc => hne hc.1)]
    exact h.ackFresh f0 hf0' hl
  · -- kept
    intro j t o e0 ho hg he
    have ho' : o < setAck s.ack f (s.term l) X.length j t := ho
    show (upd s.log f X j)[o]? = some e0 ∨ ∃ t2, t < t2 ∧ t2 ≤ s.term j ∧ s.ldr t2 ≠ none ∧ (s.G t2)[o]? ≠ some e0
    by_cases hjf : j = f
    · subst hjf
      rw [upd_same]
      by_cases ht : t = s.term l
      · subst ht
        rw [setAck_same] at ho'
        left
        rw [hXpre, List.getElem?_take, if_pos ho']; exact hg
      · rw [setAck_other _ _ _ _ _ _ (fun hc => ht hc.2)] at ho'
        rcases h.kept j t o e0 ho' hg he with h1 | h1
        · by_cases hG : (s.G (s.term l))[o]? = some e0
          · exact .inl (hkeep o e0 h1 hG)
          · right
            have htle := (h.ackOk j t (by omega)).2.1
            refine ⟨s.term l, by omega, by omega, by rw [hldr]; simp, hG⟩
        · exact .inr h1
    · rw [upd_other _ _ _ _ hjf]
      rw [setAck_other _ _ _ _ _ _ (fun hc => hjf hc.1)] at ho'
      exact h.kept j t o e0 ho' hg he
  · -- safe
    intro t t2 o e0 htt hl2 hg he hne hch
    apply h.safe t t2 o e0 htt hl2 hg he hne
    obtain ⟨Q, hQ, hall⟩ := hch
    refine ⟨Q, hQ, fun j hj => ?_⟩
    rcases hall j hj with h1 | h1
    · have h1' : o < setAck s.ack f (s.term l) X.length j t := h1
      by_cases hc : j = f ∧ t = s.term l
      · obtain ⟨hj2, ht⟩ := hc
        subst hj2; subst ht
        exact .inr (by omega)
      · rw [setAck_other _ _ _ _ _ _ hc] at h1'; exact .inl h1'
    · exact .inr h1

theorem plan_truncate_k (cfg : Cfg) (L : List Entry) (fh eh : Int × Int) (k : Int)
    (h : plan cfg L fh eh = .truncate k) : k = (highestOfTerm L fh.1).2 := by
  unfold plan at h
  by_cases c1 : fh.1 = eh.1 ∧ fh.2 ≤ eh.2
  · rw [if_pos c1] at h; cases h
  · rw [if_neg c1] at h
    by_cases c2 : fh.1 > eh.1
    · rw [if_pos c2] at h; cases h
    · rw [if_neg c2] at h
      by_cases c3 : fh.1 = (highestOfTerm L fh.1).1 ∧ fh.2 ≤ (if cfg.truncCmpOk then (highestOfTerm L fh.1).2 else eh.2)
      · rw [if_pos c3] at h; cases h
      · rw [if_neg c3] at h; cases h; rfl

theorem plan_refuse (cfg : Cfg) (L : List Entry) (fh eh : Int × Int)
    (c1 : ¬ (fh.1 = eh.1 ∧ fh.2 ≤ eh.2)) (c2 : fh.1 > eh.1) : plan cfg L fh eh = .refuse := by
  unfold plan; rw [if_neg c1, if_pos c2]

theorem inv_attach (s : St) (l f : Nat) (h : Inv s) (hp : pre s (.attach l f)) : Inv (next s (.attach l f)) := by
  obtain ⟨hlead, hfl, hterm_f, hatt, hnd44, hplan⟩ :
      s.leading l = true ∧ f ≠ l ∧ s.term f = s.term l ∧ s.att f = false ∧
      ¬ d44case (s.log l) (headOf (s.log f)) (s.eh (s.term l)) ∧
      planOk (s.log f) (plan Cfg.good (s.log l) (headOf (s.log f)) (s.eh (s.term l))) = true := hp
  obtain ⟨hldr, hlog⟩ := h.lead l hlead
  obtain ⟨m, hm⟩ := h.ehOk (s.term l) (by rw [hldr]; simp)
  rw [← hlog] at hm
  have hnF : TermsNonneg (s.log f) := by
    intro e he
    obtain ⟨j, hj⟩ := List.getElem?_of_mem he
    have := conforms_mem_G (h.confLog f) hj
    exact (h.gTerms e.term e (List.mem_of_getElem? this)).1
  have hcase : (headOf (s.log f)).1 = (headOf ((s.log l).take m)).1 ∧ (headOf (s.log f)).2 ≤ (headOf ((s.log l).take m)).2 ∨
      (highestOfTerm (s.log l) (headOf (s.log f)).1).1 = (headOf (s.log f)).1 ∨
      highestOfTerm (s.log l) (headOf (s.log f)).1 = (-1, -1) := by
    rw [← hm]
    by_cases c1 : (headOf (s.log f)).1 = (s.eh (s.term l)).1 ∧ (headOf (s.log f)).2 ≤ (s.eh (s.term l)).2
    · exact .inl c1
    · right
      by_cases c2 : (headOf (s.log f)).1 > (s.eh (s.term l)).1
      · rw [plan_refuse _ _ _ _ c1 c2] at hplan; cases hplan
      · apply Classical.byContradiction
        intro hno
        apply hnd44
        refine ⟨c1, c2, fun hc => hno (.inl hc), fun hc => hno (.inr hc)⟩
  have hok := C03_attach_compatible_general s.G (s.log l) (s.log f) m (h.confLog l) (h.confLog f) hnF hcase
  rw [← hm] at hok
  have hnext : next s (.attach l f) =
      (match plan Cfg.good (s.log l) (headOf (s.log f)) (s.eh (s.term l)) with
       | .attach _ => ({ s with att := upd s.att f true, ack := setAck s.ack f (s.term l) (s.log f).length } : St)
       | .truncate k =>
          { s with log := upd s.log f ((s.log f).take (k + 1).toNat), att := upd s.att f true,
                   ack := setAck s.ack f (s.term l) ((s.log f).take (k + 1).toNat).length }
       | .refuse => s) := rfl
  rw [hnext]
  generalize hpl : plan Cfg.good (s.log l) (headOf (s.log f)) (s.eh (s.term l)) = p at hplan hok
  cases p with
  | refuse => cases hplan
  | attach a =>
    obtain ⟨ha, _, hacked⟩ := hok.1 a rfl
    rw [ha] at hacked
    obtain ⟨hX1, hX2⟩ := acked_full_prefix _ _ hacked
    rw [hlog] at hX1 hX2
    have hcore := inv_attach_core s l f (s.log f) h hlead hfl hterm_f hatt hX1 hX2 (fun o e h1 _ => h1)
    have hupd : upd s.log f (s.log f) = s.log := by
      funext x; unfold upd; by_cases hx : x = f
      · rw [if_pos hx, hx]
      · rw [if_neg hx]
    rw [hupd] at hcore
    exact hcore
  | truncate k =>
    obtain ⟨_, hacked⟩ := hok.2 k rfl
    obtain ⟨hX1, hX2⟩ := acked_full_prefix _ _ hacked
    rw [hlog] at hX1 hX2
    have hk := plan_truncate_k _ _ _ _ _ hpl
    refine inv_attach_core s l f ((s.log f).take (k + 1).toNat) h hlead hfl hterm_f hatt hX1 hX2 ?_
    intro o e h1 h2
    -- the cut is at or above every entry the leader shares with the follower
    have hFne : s.log f ≠ [] := by intro hc; rw [hc] at h1; simp at h1
    obtain ⟨ef, hef, hhF⟩ := headOf_ne_nil (s.log f) hFne
    have hsorted := conforms_sorted (h.confLog f) h.gSorted
    have ho := getElemOpt_lt h1
    have hle : e.term ≤ ef.term := hsorted o ((s.log f).length - 1) e ef (by omega) h1 hef
    rw [← hlog] at h2
    have hge := highestOfTerm_ge (s.log l) (headOf (s.log f)).1 o e h2 (by rw [hhF]; exact hle)
    rw [List.getElem?_take, if_pos (by omega)]; exact h1

/-! ### the coordinator installs a leader -/

/-- the election step of leader completeness: `x` is one of the fenced nodes and holds the own-term entry
    `e` of term `t` at offset `o`; the winner's head is not beaten by `x`'s; every leader of a term between
    `t` and now holds `e` (or `(t, o)` could not be acknowledged any more). Then the winner holds `e`. -/
theorem election_keeps_entry (G : Int → List Entry) (X B : List Entry) (o : Nat) (e : Entry)
    (hX : Conforms G X) (hB : Conforms G B) (hGs : ∀ t, TermsSorted (G t))
    (hG0 : ∀ t e, e ∈ G t → 0 ≤ e.term)
    (hmid : ∀ t2, e.term < t2 → G t2 ≠ [] → (G t2)[o]? = some e)
    (he : X[o]? = some e) (hwin : better (headOf X) (headOf B) = false) : B[o]? = some e := by
  have hXne : X ≠ [] := by intro hc; subst hc; simp at he
  obtain ⟨ex, hex, hhX⟩ := headOf_ne_nil X hXne
  have hsX := conforms_sorted hX hGs
  have hoX := getElemOpt_lt he
  have hle : e.term ≤ ex.term := hsX o (X.length - 1) e ex (by omega) he hex
  have hex0 : 0 ≤ ex.term := hG0 ex.term ex (List.mem_of_getElem? (conforms_mem_G hX hex))
  have hBne : B ≠ [] := by
    intro hc; subst hc
    rw [hhX, headOf_nil] at hwin
    unfold better at hwin
    simp only [decide_eq_false_iff_not] at hwin
    omega
  obtain ⟨eb, heb, hhB⟩ := headOf_ne_nil B hBne
  have hwin' := hwin
  rw [hhX, hhB] at hwin'
  unfold better at hwin'
  simp only [decide_eq_false_iff_not] at hwin'
  by_cases hsame : eb.term = e.term
  · exact C01.C01_election_keeps_entry_same_term_partial G X B o e hX hB hsX he hBne hwin (by rw [hhB]; exact hsame)
  · have hgt : e.term < eb.term := by omega
    have hBG := conforms_last hB eb heb hBne
    have hebG : (G eb.term)[B.length - 1]? = some eb := conforms_mem_G hB heb
    have hGne : G eb.term ≠ [] := by intro hc; rw [hc] at hebG; simp at hebG
    have hge := hmid eb.term hgt hGne
    have hBpos : 0 < B.length := List.length_pos_iff.2 hBne
    have hlt : o < B.length - 1 := by
      apply Classical.byContradiction
      intro hno
      have := hGs eb.term (B.length - 1) o eb e (by omega) hebG hge
      omega
    rw [hBG, List.getElem?_take, if_pos (by omega)]; exact hge

theorem inv_becomeLeader (s : St) (l : Nat) (S : List Nat) (h : Inv s) (hp : pre s (.becomeLeader l S)) :
    Inv (next s (.becomeLeader l S)) := by
  obtain ⟨hnone, hS, hlS, hSterm, hSbest⟩ :
      s.ldr s.ct = none ∧ Maj s.n S ∧ l ∈ S ∧ (∀ i ∈ S, s.term i = s.ct) ∧
      (∀ i ∈ S, better (headOf (s.log i)) (headOf (s.log l)) = false) := hp
  have hGC0 := h.gNone s.ct hnone
  have hlterm := hSterm l hlS
  have hG : ∀ t, (next s (.becomeLeader l S)).G t = if t = s.ct then s.log l else s.G t := fun t => rfl
  have hGC : (next s (.becomeLeader l S)).G s.ct = s.log l := by rw [hG, if_pos rfl]
  have hGne : ∀ t, t ≠ s.ct → (next s (.becomeLeader l S)).G t = s.G t := fun t ht => by rw [hG, if_neg ht]
  have hL : ∀ t, (next s (.becomeLeader l S)).ldr t = if t = s.ct then some l else s.ldr t := fun t => rfl
  have hLC : (next s (.becomeLeader l S)).ldr s.ct = some l := by rw [hL, if_pos rfl]
  have hLne : ∀ t, t ≠ s.ct → (next s (.becomeLeader l S)).ldr t = s.ldr t := fun t ht => by rw [hL, if_neg ht]
  have hE : ∀ t, (next s (.becomeLeader l S)).eh t = if t = s.ct then headOf (s.log l) else s.eh t := fun t => rfl
  have hack : ∀ j t, (next s (.becomeLeader l S)).ack j t = if j = l ∧ t = s.ct then (s.log l).length else s.ack j t := fun j t => rfl
  have hterm : (next s (.becomeLeader l S)).term = s.term := rfl
  have hlogE : (next s (.becomeLeader l S)).log = s.log := rfl
  have hattE : (next s (.becomeLeader l S)).att = s.att := rfl
  have hnE : (next s (.becomeLeader l S)).n = s.n := rfl
  have hctE : (next s (.becomeLeader l S)).ct = s.ct := rfl
  -- nothing of the new term exists yet
  have hGnonempty : ∀ t, s.G t ≠ [] → t ≠ s.ct ∧ s.ldr t ≠ none ∧ t ≤ s.ct := by
    intro t ht
    have h1 : s.ldr t ≠ none := fun hc => ht (h.gNone t hc)
    refine ⟨fun hc => ht (hc ▸ hGC0), h1, ?_⟩
    cases hl0 : s.ldr t with
    | none => exact absurd hl0 h1
    | some l0 => exact (h.ldrBound t l0 hl0).2
  have hnoC : ∀ X, Conforms s.G X → ∀ (j : Nat) (e : Entry), X[j]? = some e → e.term ≠ s.ct ∧ e.term ≤ s.ct ∧ 0 ≤ e.term := by
    intro X hX j e he
    have h1 := conforms_mem_G hX he
    have h2 : s.G e.term ≠ [] := by intro hc; rw [hc] at h1; simp at h1
    have h3 := hGnonempty e.term h2
    exact ⟨h3.1, h3.2.2, (h.gTerms e.term e (List.mem_of_getElem? h1)).1⟩
  have hlift : ∀ X, Conforms s.G X → Conforms (next s (.becomeLeader l S)).G X := by
    intro X hX j e he
    rw [hGne e.term (hnoC X hX j e he).1]; exact hX j e he
  have hack0 : ∀ j, s.ack j s.ct = 0 := by
    intro j
    apply Classical.byContradiction
    intro hne
    have := (h.ackOk j s.ct (by omega)).1
    rw [hGC0] at this; simp at this; omega
  have hleadne : ∀ j, s.leading j = true → s.term j ≠ s.ct := by
    intro j hj hc
    have := (h.lead j hj).1
    rw [hc, hnone] at this; cases this
  refine { ct0 := h.ct0, termLe := h.termLe, ldrBound := ?_, gNone := ?_, lead := ?_, attd := ?_,
           confLog := ?_, confG := ?_, gTerms := ?_, gSorted := ?_, ackOk := ?_,
           ackFresh := ?_, kept := ?_, safe := ?_, fenceQ := ?_, ehOk := ?_ }
  all_goals (try simp only [hterm, hlogE, hattE, hnE, hctE])
  · -- ldrBound
    intro t l0 hl0
    by_cases ht : t = s.ct
    · subst ht; exact ⟨h.ct0, Int.le_refl _⟩
    · rw [hLne t ht] at hl0; exact h.ldrBound t l0 hl0
  · -- gNone
    intro t ht
    by_cases htc : t = s.ct
    · subst htc; rw [hLC] at ht; cases ht
    · rw [hLne t htc] at ht; rw [hGne t htc]; exact h.gNone t ht
  · -- lead
    intro j hj
    have hj' : upd s.leading l true j = true := hj
    by_cases hjl : j = l
    · subst hjl; rw [hlterm, hLC, hGC]; exact ⟨rfl, rfl⟩
    · rw [upd_other _ _ _ _ hjl] at hj'
      have hne := hleadne j hj'
      rw [hLne _ hne, hGne _ hne]; exact h.lead j hj'
  · -- attd
    intro f hf
    obtain ⟨⟨l0, h1, h1b⟩, h2⟩ := h.attd f hf
    have hne : s.term f ≠ s.ct := by intro hc; rw [hc, hnone] at h1; cases h1
    rw [hLne _ hne, hGne _ hne]; exact ⟨⟨l0, h1, h1b⟩, h2⟩
  · -- confLog
    intro j; exact hlift _ (h.confLog j)
  · -- confG
    intro t
    by_cases ht : t = s.ct
    · subst ht; rw [hGC]; exact hlift _ (h.confLog l)
    · rw [hGne t ht]; exact hlift _ (h.confG t)
  · -- gTerms
    intro t e he
    by_cases ht : t = s.ct
    · subst ht
      rw [hGC] at he
      obtain ⟨j, hj⟩ := List.getElem?_of_mem he
      have := hnoC _ (h.confLog l) j e hj
      exact ⟨this.2.2, this.2.1⟩
    · rw [hGne t ht] at he; exact h.gTerms t e he
  · -- gSorted
    intro t
    by_cases ht : t = s.ct
    · subst ht; rw [hGC]; exact conforms_sorted (h.confLog l) h.gSorted
    · rw [hGne t ht]; exact h.gSorted t
  · -- ackOk
    intro j t hpos
    rw [hack] at hpos ⊢
    by_cases hc : j = l ∧ t = s.ct
    · obtain ⟨hj, ht⟩ := hc
      subst hj; subst ht
      rw [if_pos ⟨rfl, rfl⟩, hGC]
      exact ⟨Nat.le_refl _, by omega, fun _ => ⟨Nat.le_refl _, by rw [List.take_length]⟩⟩
    · rw [if_neg hc] at hpos ⊢
      have htc : t ≠ s.ct := by intro hc2; subst hc2; rw [hack0 j] at hpos; omega
      rw [hGne t htc]; exact h.ackOk j t hpos
  · -- ackFresh
    intro f hf hl
    by_cases hfl : f = l
    · subst hfl; rw [hlterm, hLC] at hl; exact absurd rfl hl
    · rw [hack, if_neg (fun hc => hfl hc.1)]
      apply h.ackFresh f hf
      by_cases hc : s.term f = s.ct
      · rw [hc, hnone]; simp
      · rw [hLne _ hc] at hl; exact hl
  · -- kept
    intro j t o e ho hg he
    rw [hack] at ho
    by_cases hc : j = l ∧ t = s.ct
    · obtain ⟨hj, ht⟩ := hc
      subst hj; subst ht
      rw [hGC] at hg; exact .inl hg
    · rw [if_neg hc] at ho
      have htc : t ≠ s.ct := by intro hc2; subst hc2; rw [hack0 j] at ho; omega
      rw [hGne t htc] at hg
      rcases h.kept j t o e ho hg he with h1 | ⟨t2, h1, h2, h3, h4⟩
      · exact .inl h1
      · have ht2 : t2 ≠ s.ct := by intro hc2; subst hc2; exact h3 hnone
        exact .inr ⟨t2, h1, h2, by rw [hLne t2 ht2]; exact h3, by rw [hGne t2 ht2]; exact h4⟩
  · -- safe
    intro t t2 o e htt hl2 hg he hne hch
    -- acknowledgements of terms other than the new one are unchanged
    have hchoose : t ≠ s.ct → Choosable s t o := by
      intro htc
      obtain ⟨Q, hQ, hall⟩ := hch
      refine ⟨Q, hQ, fun j hj => ?_⟩
      rcases hall j hj with h1 | h1
      · rw [hack, if_neg (fun hc => htc hc.2)] at h1; exact .inl h1
      · exact .inr h1
    by_cases htc : t = s.ct
    · -- no leader of a later term exists
      subst htc
      have ht2 : t2 ≠ s.ct := by omega
      rw [hLne t2 ht2] at hl2
      cases hl0 : s.ldr t2 with
      | none => exact hl2 hl0
      | some l0 => have := (h.ldrBound t2 l0 hl0).2; omega
    · have hch' := hchoose htc
      rw [hGne t htc] at hg
      by_cases ht2 : t2 = s.ct
      · -- the new leader: by the fencing majority and the choice of the best head
        subst ht2
        rw [hGC] at hne
        apply hne
        obtain ⟨Q, hQ, hall⟩ := hch'
        obtain ⟨x, hxQ, hxS⟩ := maj_inter hQ hS
        have hxt := hSterm x hxS
        have hox : o < s.ack x t := by
          rcases hall x hxQ with h1 | h1
          · exact h1
          · omega
        have hmid : ∀ t3, e.term < t3 → s.G t3 ≠ [] → (s.G t3)[o]? = some e := by
          intro t3 h3 h3ne
          apply Classical.byContradiction
          intro hno
          obtain ⟨h3a, h3b, _⟩ := hGnonempty t3 h3ne
          exact h.safe t t3 o e (by omega) h3b hg he hno ⟨Q, hQ, hall⟩
        rcases h.kept x t o e hox hg he with h1 | ⟨t3, h3a, h3b, h3c, h3d⟩
        · exact election_keeps_entry s.G (s.log x) (s.log l) o e (h.confLog x) (h.confLog l) h.gSorted
            (fun t e he => (h.gTerms t e he).1) hmid h1 (hSbest x hxS)
        · exact absurd ⟨Q, hQ, hall⟩ (h.safe t t3 o e h3a h3c hg he h3d)
      · rw [hLne t2 ht2] at hl2
        rw [hGne t2 ht2] at hne
        exact h.safe t t2 o e htt hl2 hg he hne hch'
  · -- fenceQ
    intro t hl
    by_cases ht : t = s.ct
    · subst ht
      exact ⟨S, hS, fun i hi => by rw [hSterm i hi]; exact Int.le_refl _⟩
    · rw [hLne t ht] at hl; exact h.fenceQ t hl
  · -- ehOk
    intro t hl
    by_cases ht : t = s.ct
    · subst ht
      refine ⟨(s.log l).length, ?_⟩
      rw [hE, if_pos rfl, hGC, List.take_length]
    · rw [hLne t ht] at hl
      obtain ⟨m, hm⟩ := h.ehOk t hl
      exact ⟨m, by rw [hE, if_neg ht, hGne t ht]; exact hm⟩

/-! ### the invariant holds in every reachable state; leader completeness -/

theorem inv_step (s : St) (op : Op) (h : Inv s) (hp : pre s op) : Inv (next s op) := by
  cases op with
  | newElection => exact inv_newElection s h
  | fence i => exact inv_fence s i h hp
  | becomeLeader l S => exact inv_becomeLeader s l S h hp
  | attach l f => exact inv_attach s l f h hp
  | append l f => exact inv_append s l f h hp
  | write l id => exact inv_write s l id h hp
  | restart i => exact inv_restart s i h

theorem inv_reach (n : Nat) (s : St) (hr : Reach n s) : Inv s := by
  induction hr with
  | init => exact inv_init n
  | step s op _ hp ih => exact inv_step s op ih hp

theorem chosen_choosable (s : St) (t : Int) (o : Nat) (h : Chosen s t o) : Choosable s t o := by
  obtain ⟨Q, hQ, hall⟩ := h
  exact ⟨Q, hQ, fun i hi => .inl (hall i hi)⟩

/-- **Leader completeness for acknowledged own-term entries.** In every reachable state: if offset `o` of
    term `t` has been acknowledged by a majority (`Chosen`) and holds an entry `e` that the leader of `t`
    wrote itself, then the log of the leader of every later term `t2` holds `e` at offset `o`. -/
theorem leader_completeness (n : Nat) (s : St) (hr : Reach n s) (t t2 : Int) (o : Nat) (e : Entry)
    (hch : Chosen s t o) (hg : (s.G t)[o]? = some e) (he : e.term = t) (htt : t < t2) (hl : s.ldr t2 ≠ none) :
    (s.G t2)[o]? = some e := by
  apply Classical.byContradiction
  intro hne
  exact (inv_reach n s hr).safe t t2 o e htt hl hg he hne (chosen_choosable s t o hch)

/-- the same, for the node that currently leads -/
theorem current_leader_holds_acknowledged (n : Nat) (s : St) (hr : Reach n s) (t : Int) (o : Nat) (e : Entry)
    (hch : Chosen s t o) (hg : (s.G t)[o]? = some e) (he : e.term = t)
    (j : Nat) (hj : s.leading j = true) (htj : t < s.term j) : (s.log j)[o]? = some e := by
  obtain ⟨h1, h2⟩ := (inv_reach n s hr).lead j hj
  rw [h2]
  exact leader_completeness n s hr t (s.term j) o e hch hg he htj (by rw [h1]; simp)

/-- at most one node leads a term, and what it holds is that term's log -/
theorem one_leader_per_term (n : Nat) (s : St) (hr : Reach n s) (i j : Nat)
    (hi : s.leading i = true) (hj : s.leading j = true) (ht : s.term i = s.term j) : i = j := by
  have h1 := ((inv_reach n s hr).lead i hi).1
  have h2 := ((inv_reach n s hr).lead j hj).1
  rw [ht, h2] at h1; cases h1; rfl

/-- log matching: in every reachable state every node's log, up to each of its entries, is the prefix of
    the log of the leader of that entry's term; so two logs that hold the same entry of a term at an offset
    are equal up to there -/
theorem log_matching (n : Nat) (s : St) (hr : Reach n s) (i j : Nat) (o : Nat) (e e2 : Entry)
    (hi : (s.log i)[o]? = some e) (hj : (s.log j)[o]? = some e2) (ht : e.term = e2.term) :
    (s.log i).take (o + 1) = (s.log j).take (o + 1) := by
  have h := inv_reach n s hr
  rw [h.confLog i o e hi, h.confLog j o e2 hj, ht]

/-- an attached follower holds a prefix of its leader's log: what it has acknowledged is what the leader
    holds (C03 for every reachable state of A-Repl) -/
theorem follower_holds_prefix (n : Nat) (s : St) (hr : Reach n s) (l f : Nat)
    (hl : s.leading l = true) (hf : s.att f = true) (ht : s.term f = s.term l) :
    s.log f = (s.log l).take (s.log f).length := by
  have h := inv_reach n s hr
  rw [(h.lead l hl).2, ← ht]
  exact (h.attd f hf).2

/-- **the part of C02 that holds**: the whole prefix up to an acknowledged own-term entry is the same in the
    log of every later leader - a read that shows nothing beyond such an offset is never rolled back.
    (The implementation also shows entries a leader re-commits from older terms, beyond its last own-term
    acknowledged offset; for those the statement is false: known finding D-40.) -/
theorem acknowledged_prefix_never_rolled_back (n : Nat) (s : St) (hr : Reach n s) (t t2 : Int) (o : Nat) (e : Entry)
    (hch : Chosen s t o) (hg : (s.G t)[o]? = some e) (he : e.term = t) (htt : t < t2) (hl : s.ldr t2 ≠ none) :
    (s.G t2).take (o + 1) = (s.G t).take (o + 1) := by
  have h := inv_reach n s hr
  have h2 := leader_completeness n s hr t t2 o e hch hg he htt hl
  rw [h.confG t2 o e h2, h.confG t o e hg]

/-! ### what has been acknowledged stays acknowledged, in every later state -/

inductive ReachFrom (s0 : St) : St → Prop
  | refl : ReachFrom s0 s0
  | step (s : St) (op : Op) : ReachFrom s0 s → pre s op → ReachFrom s0 (next s op)

theorem reach_trans (n : Nat) (s0 s : St) (h0 : Reach n s0) (h : ReachFrom s0 s) : Reach n s := by
  induction h with
  | refl => exact h0
  | step s op _ hp ih => exact Reach.step s op ih hp

theorem step_keeps (s : St) (op : Op) (h : Inv s) (hp : pre s op) :
    (∀ (t : Int) (o : Nat) (e : Entry), (s.G t)[o]? = some e → ((next s op).G t)[o]? = some e) ∧
    (∀ i t, s.ack i t ≤ (next s op).ack i t) ∧ (next s op).n = s.n := by
  cases op with
  | newElection => exact ⟨fun _ _ _ h1 => h1, fun _ _ => Nat.le_refl _, rfl⟩
  | fence i => exact ⟨fun _ _ _ h1 => h1, fun _ _ => Nat.le_refl _, rfl⟩
  | restart i => exact ⟨fun _ _ _ h1 => h1, fun _ _ => Nat.le_refl _, rfl⟩
  | becomeLeader l S =>
    have hnone : s.ldr s.ct = none := hp.1
    have hGC0 := h.gNone s.ct hnone
    refine ⟨?_, ?_, rfl⟩
    · intro t o e h1
      have hne : t ≠ s.ct := by intro hc; subst hc; rw [hGC0] at h1; simp at h1
      show (updI s.G s.ct (s.log l) t)[o]? = some e
      rw [updI_other _ _ _ _ hne]; exact h1
    · intro i t
      show s.ack i t ≤ setAck s.ack l s.ct (s.log l).length i t
      by_cases hc : i = l ∧ t = s.ct
      · obtain ⟨hi, ht⟩ := hc
        subst hi; subst ht
        have : s.ack i s.ct = 0 := by
          apply Classical.byContradiction
          intro hne
          have := (h.ackOk i s.ct (by omega)).1
          rw [hGC0] at this; simp at this; omega
        omega
      · rw [setAck_other _ _ _ _ _ _ hc]; exact Nat.le_refl _
  | write l id =>
    have hlead : s.leading l = true := hp
    obtain ⟨hldr, hlog⟩ := h.lead l hlead
    refine ⟨?_, ?_, rfl⟩
    · intro t o e h1
      show (updI s.G (s.term l) (s.log l ++ [{ term := s.term l, id := id }]) t)[o]? = some e
      by_cases ht : t = s.term l
      · subst ht
        rw [updI_same, hlog, List.getElem?_append_left (getElemOpt_lt h1)]; exact h1
      · rw [updI_other _ _ _ _ ht]; exact h1
    · intro i t
      show s.ack i t ≤ setAck s.ack l (s.term l) ((s.log l).length + 1) i t
      by_cases hc : i = l ∧ t = s.term l
      · obtain ⟨hi, ht⟩ := hc
        subst hi; subst ht
        rw [setAck_same]
        by_cases h0 : 0 < s.ack i (s.term i)
        · have := ((h.ackOk i (s.term i) h0).2.2 rfl).1; omega
        · omega
      · rw [setAck_other _ _ _ _ _ _ hc]; exact Nat.le_refl _
  | append l f =>
    obtain ⟨hlead, hfl, hterm_f, hatt, hlen⟩ : s.leading l = true ∧ f ≠ l ∧ s.term f = s.term l ∧ s.att f = true ∧
        (s.log f).length < (s.log l).length := hp
    have hget : (s.log l)[(s.log f).length]? = some ((s.log l)[(s.log f).length]'hlen) := List.getElem?_eq_getElem hlen
    have hnext : next s (.append l f) =
        { s with log := upd s.log f (s.log f ++ [(s.log l)[(s.log f).length]'hlen]),
                 ack := setAck s.ack f (s.term l) ((s.log f).length + 1) } := by
      show (match (s.log l)[(s.log f).length]? with
        | some e => ({ s with log := upd s.log f (s.log f ++ [e]), ack := setAck s.ack f (s.term l) ((s.log f).length + 1) } : St)
        | none => s) = _
      rw [hget]
    rw [hnext]
    refine ⟨fun _ _ _ h1 => h1, ?_, rfl⟩
    intro i t
    show s.ack i t ≤ setAck s.ack f (s.term l) ((s.log f).length + 1) i t
    by_cases hc : i = f ∧ t = s.term l
    · obtain ⟨hi, ht⟩ := hc
      subst hi; subst ht
      rw [setAck_same]
      by_cases h0 : 0 < s.ack i (s.term l)
      · have := ((h.ackOk i (s.term l) h0).2.2 hterm_f).1; omega
      · omega
    · rw [setAck_other _ _ _ _ _ _ hc]; exact Nat.le_refl _
  | attach l f =>
    obtain ⟨hlead, hfl, hterm_f, hatt, _, _⟩ :
        s.leading l = true ∧ f ≠ l ∧ s.term f = s.term l ∧ s.att f = false ∧
        ¬ d44case (s.log l) (headOf (s.log f)) (s.eh (s.term l)) ∧
        planOk (s.log f) (plan Cfg.good (s.log l) (headOf (s.log f)) (s.eh (s.term l))) = true := hp
    obtain ⟨hldr, _⟩ := h.lead l hlead
    have hack0 : s.ack f (s.term l) = 0 := by
      have := h.ackFresh f hatt (by rw [hterm_f, hldr]; intro hc; cases hc; exact hfl rfl)
      rw [hterm_f] at this; exact this
    have hmono : ∀ v i t, s.ack i t ≤ setAck s.ack f (s.term l) v i t := by
      intro v i t
      by_cases hc : i = f ∧ t = s.term l
      · obtain ⟨hi, ht⟩ := hc
        subst hi; subst ht; rw [hack0]; omega
      · rw [setAck_other _ _ _ _ _ _ hc]; exact Nat.le_refl _
    have hnext : next s (.attach l f) =
        (match plan Cfg.good (s.log l) (headOf (s.log f)) (s.eh (s.term l)) with
         | .attach _ => ({ s with att := upd s.att f true, ack := setAck s.ack f (s.term l) (s.log f).length } : St)
         | .truncate k =>
            { s with log := upd s.log f ((s.log f).take (k + 1).toNat), att := upd s.att f true,
                     ack := setAck s.ack f (s.term l) ((s.log f).take (k + 1).toNat).length }
         | .refuse => s) := rfl
    rw [hnext]
    cases plan Cfg.good (s.log l) (headOf (s.log f)) (s.eh (s.term l)) with
    | refuse => exact ⟨fun _ _ _ h1 => h1, fun _ _ => Nat.le_refl _, rfl⟩
    | attach a => exact ⟨fun _ _ _ h1 => h1, hmono _, rfl⟩
    | truncate k => exact ⟨fun _ _ _ h1 => h1, hmono _, rfl⟩

theorem chosen_stable (n : Nat) (s0 s : St) (h0 : Reach n s0) (hs : ReachFrom s0 s)
    (t : Int) (o : Nat) (e : Entry) (hch : Chosen s0 t o) (hg : (s0.G t)[o]? = some e) :
    (s.G t)[o]? = some e ∧ Chosen s t o ∧ Reach n s := by
  induction hs with
  | refl => exact ⟨hg, hch, h0⟩
  | step s1 op _ hp ih =>
    obtain ⟨ih1, ih2, ih3⟩ := ih
    obtain ⟨k1, k2, k3⟩ := step_keeps s1 op (inv_reach n s1 ih3) hp
    refine ⟨k1 t o e ih1, ?_, Reach.step s1 op ih3 hp⟩
    obtain ⟨Q, hQ, hall⟩ := ih2
    exact ⟨Q, by rw [k3]; exact hQ, fun i hi => Nat.lt_of_lt_of_le (hall i hi) (k2 i t)⟩

/-- **C01 on A-Repl**: once an own-term entry has been acknowledged by a majority, it is at its offset in
    the log of every node that leads a later term, in every state the system can reach afterwards — through
    any number of elections, restarts, truncations and writes, for every interleaving. -/
theorem acknowledged_write_survives (n : Nat) (s0 s : St) (h0 : Reach n s0) (hs : ReachFrom s0 s)
    (t : Int) (o : Nat) (e : Entry)
    (hch : Chosen s0 t o) (hg : (s0.G t)[o]? = some e) (he : e.term = t)
    (j : Nat) (hj : s.leading j = true) (htj : t < s.term j) : (s.log j)[o]? = some e := by
  obtain ⟨k1, k2, k3⟩ := chosen_stable n s0 s h0 hs t o e hch hg
  exact current_leader_holds_acknowledged n s k3 t o e k2 k1 he j hj htj

/-! ### what a single step can do to a node (C04, C05 on A-Repl) -/

/-- terms never go back, whatever the step -/
theorem term_monotone (s : St) (op : Op) (hp : pre s op) (i : Nat) : s.term i ≤ (next s op).term i := by
  cases op with
  | fence j =>
    have hp : s.term j < s.ct := hp
    show s.term i ≤ upd s.term j s.ct i
    by_cases hij : i = j
    · subst hij; rw [upd_same]; omega
    · rw [upd_other _ _ _ _ hij]; exact Int.le_refl _
  | attach l f =>
    have hnext : (next s (.attach l f)).term = s.term := by
      show (match plan Cfg.good (s.log l) (headOf (s.log f)) (s.eh (s.term l)) with
         | .attach _ => ({ s with att := upd s.att f true, ack := setAck s.ack f (s.term l) (s.log f).length } : St)
         | .truncate k =>
            { s with log := upd s.log f ((s.log f).take (k + 1).toNat), att := upd s.att f true,
                     ack := setAck s.ack f (s.term l) ((s.log f).take (k + 1).toNat).length }
         | .refuse => s).term = s.term
      cases plan Cfg.good (s.log l) (headOf (s.log f)) (s.eh (s.term l)) <;> rfl
    rw [hnext]; exact Int.le_refl _
  | append l f =>
    have hnext : (next s (.append l f)).term = s.term := by
      show (match (s.log l)[(s.log f).length]? with
        | some e => ({ s with log := upd s.log f (s.log f ++ [e]), ack := setAck s.ack f (s.term l) ((s.log f).length + 1) } : St)
        | none => s).term = s.term
      cases (s.log l)[(s.log f).length]? <;> rfl
    rw [hnext]; exact Int.le_refl _
  | newElection => exact Int.le_refl _
  | becomeLeader l S => exact Int.le_refl _
  | write l id => exact Int.le_refl _
  | restart j => exact Int.le_refl _

/-- **C04 on A-Repl**: the log of a node changes only through its own client write while it leads, or through
    an attach / append by the node that leads the node's *current* term - after a node has answered a
    new-term request nothing is taken on behalf of an older term -/
theorem log_changes_only_in_current_term (s : St) (op : Op) (hp : pre s op) (i : Nat)
    (hne : (next s op).log i ≠ s.log i) :
    (∃ id, op = .write i id ∧ s.leading i = true) ∨
    (∃ l, (op = .attach l i ∨ op = .append l i) ∧ s.leading l = true ∧ s.term l = s.term i) := by
  cases op with
  | newElection => exact absurd rfl hne
  | fence j => exact absurd rfl hne
  | becomeLeader l S => exact absurd rfl hne
  | restart j => exact absurd rfl hne
  | write l id =>
    have hp : s.leading l = true := hp
    by_cases hil : i = l
    · subst hil; exact .inl ⟨id, rfl, hp⟩
    · exfalso; apply hne
      show upd s.log l _ i = s.log i
      rw [upd_other _ _ _ _ hil]
  | append l f =>
    obtain ⟨hlead, _, hterm_f, _, _⟩ : s.leading l = true ∧ f ≠ l ∧ s.term f = s.term l ∧ s.att f = true ∧
        (s.log f).length < (s.log l).length := hp
    by_cases hif : i = f
    · subst hif; exact .inr ⟨l, .inr rfl, hlead, hterm_f.symm⟩
    · exfalso; apply hne
      show (match (s.log l)[(s.log f).length]? with
        | some e => ({ s with log := upd s.log f (s.log f ++ [e]), ack := setAck s.ack f (s.term l) ((s.log f).length + 1) } : St)
        | none => s).log i = s.log i
      cases (s.log l)[(s.log f).length]? with
      | none => rfl
      | some e => show upd s.log f _ i = s.log i; rw [upd_other _ _ _ _ hif]
  | attach l f =>
    obtain ⟨hlead, _, hterm_f, _, _, _⟩ :
        s.leading l = true ∧ f ≠ l ∧ s.term f = s.term l ∧ s.att f = false ∧
        ¬ d44case (s.log l) (headOf (s.log f)) (s.eh (s.term l)) ∧
        planOk (s.log f) (plan Cfg.good (s.log l) (headOf (s.log f)) (s.eh (s.term l))) = true := hp
    by_cases hif : i = f
    · subst hif; exact .inr ⟨l, .inl rfl, hlead, hterm_f.symm⟩
    · exfalso; apply hne
      show (match plan Cfg.good (s.log l) (headOf (s.log f)) (s.eh (s.term l)) with
         | .attach _ => ({ s with att := upd s.att f true, ack := setAck s.ack f (s.term l) (s.log f).length } : St)
         | .truncate k =>
            { s with log := upd s.log f ((s.log f).take (k + 1).toNat), att := upd s.att f true,
                     ack := setAck s.ack f (s.term l) ((s.log f).take (k + 1).toNat).length }
         | .refuse => s).log i = s.log i
      cases plan Cfg.good (s.log l) (headOf (s.log f)) (s.eh (s.term l)) with
      | refuse => rfl
      | attach a => rfl
      | truncate k => show upd s.log f _ i = s.log i; rw [upd_other _ _ _ _ hif]

/-! ### the hypotheses are met by real runs (non-vacuity), and where the envelope ends -/

/-- three nodes; term 1: node 0 leads, 100 is acknowledged by {0, 1, 2}... (here by 0 and 1), 101 stays on the
    leader alone; term 2: {1, 2} elect node 1, which writes 200; then the old leader is fenced and attached:
    it is truncated to offset 0 -/
def demoOps : List Op :=
  [.newElection, .fence 0, .fence 1, .fence 2, .becomeLeader 0 [0, 1, 2], .attach 0 1, .attach 0 2,
   .write 0 100, .append 0 1, .write 0 101,
   .newElection, .fence 1, .fence 2, .becomeLeader 1 [1, 2], .attach 1 2, .append 1 2, .write 1 200,
   .fence 0, .attach 1 0, .append 1 0]

theorem demo_run_meets_hypotheses :
    (match runOps (init 3) demoOps with
     | some s =>
        decide ((s.G 1)[0]? = some ⟨1, 100⟩) && decide (0 < s.ack 0 1 ∧ 0 < s.ack 1 1) && decide (Maj s.n [0, 1]) &&
        s.leading 1 && decide (s.term 1 = 2) && decide ((s.log 1)[0]? = some ⟨1, 100⟩) &&
        decide (s.log 0 = [⟨1, 100⟩, ⟨2, 200⟩]) && decide (s.G 1 = [⟨1, 100⟩, ⟨1, 101⟩])
     | none => false) = true := by decide

/-- the D-44 history in A-Repl steps, up to the point where node 1 would be attached in term 4 -/
def d44Ops : List Op :=
  [.newElection, .fence 0, .fence 1, .fence 2, .becomeLeader 0 [0, 1, 2], .attach 0 1, .attach 0 2,
   .write 0 100, .append 0 1, .append 0 2, .write 0 101, .write 0 102,
   .newElection, .fence 1, .fence 2, .becomeLeader 1 [1, 2], .attach 1 2, .write 1 200, .write 1 201, .write 1 202,
   .newElection, .fence 0, .fence 2, .becomeLeader 0 [0, 2], .attach 0 2, .append 0 2, .append 0 2, .write 0 300, .append 0 2,
   .newElection, .fence 0, .fence 1, .fence 2, .becomeLeader 0 [0, 1, 2]]

/-- where the proved envelope ends: in that state the attach step for node 1 is exactly the case known
    finding D-44 is about, and it is not enabled in A-Repl (M-Repl and the implementation carry it out, and
    diverge: `C03_follower_diverges_below_acknowledged_offset`) -/
theorem d44_attach_not_enabled :
    (match runOps (init 3) d44Ops with
     | some s =>
        decide (d44case (s.log 0) (headOf (s.log 1)) (s.eh (s.term 0))) && decide (¬ pre s (.attach 0 1)) &&
        decide (s.log 0 = [⟨1, 100⟩, ⟨1, 101⟩, ⟨1, 102⟩, ⟨3, 300⟩]) && decide (s.log 1 = [⟨1, 100⟩, ⟨2, 200⟩, ⟨2, 201⟩, ⟨2, 202⟩])
     | none => false) = true := by decide

end Oxia.ReplSafety
