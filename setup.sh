#!/bin/bash
# Run once after a fresh restore, offline: build the Lean library + driver and the Go tools.
set -e
cd "$(dirname "$0")"
export GOFLAGS=-mod=mod GOPROXY=off
mkdir -p .work/bin evidence replays
cp /repo/go.sum harness/go.sum
(cd harness && go build -o ../.work/bin/extract ./cmd/extract && go build -tags verif -o ../.work/bin/oxh ./cmd/oxh)
.work/bin/extract --repo /repo --lean lean/OxiaVerif/Facts.lean --json .work/facts.json
(cd lean && lake build OxiaVerif oxdriver)
echo setup done
