#!/bin/bash
# Runs the repository's pinned test suite with the verif guard OFF and compares the set of
# passing tests with /root/.vp/BASELINE.json (540 stable tests). Exit 0 iff all of them pass.
export GOFLAGS=-mod=mod GOPROXY=off
OUT=${1:-/verif/.work/baseline.gotest.json}
mkdir -p "$(dirname "$OUT")"
(cd /repo && go test -mod=mod -json -vet=off -count=1 -timeout 25m ./... > "$OUT" 2>/dev/null)
python3 - "$OUT" <<'PY'
import json,sys
passed=set();failed=set()
for l in open(sys.argv[1]):
    try: e=json.loads(l)
    except Exception: continue
    if e.get('Test') and e.get('Action') in('pass','fail'):
        (passed if e['Action']=='pass' else failed).add(e['Package']+'::'+e['Test'])
base=set(json.load(open('/root/.vp/BASELINE.json'))['stable_pass'])
missing=sorted(base-passed)
print(f"baseline={len(base)} passed_now={len(passed)} baseline_missing={len(missing)} failed={len(failed)}")
for m in missing[:40]: print("  MISSING/FAILED:",m)
sys.exit(1 if missing else 0)
PY
