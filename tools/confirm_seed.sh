#!/bin/bash
# confirm_seed.sh <worktree> <n> : confirms a seeded change in its scratch worktree:
#  demo passes without the patch, fails with it; the repository's pinned suite passes with it.
export GOFLAGS=-mod=mod GOPROXY=off
WT=$1; N=$2; S=$WT/seeded/$N
cd "$WT" || exit 2
git checkout -q -- . 
DIR=$(python3 -c "import json;print(json.load(open('$S/meta.json'))['demo_dir'])")
CMD=$(python3 -c "import json;print(json.load(open('$S/meta.json'))['demo_cmd'])")
case "$CMD" in *"cp seeded"*) ;; *) cp "$S/demo_test.go" "$DIR/zz_seed_demo_test.go";; esac
echo "== demo without patch (expect PASS): $CMD"
( eval "$CMD" ) > /tmp/seed_demo_clean.log 2>&1; A=$?; tail -3 /tmp/seed_demo_clean.log
git apply "$S/patch.diff" || { echo "PATCH DOES NOT APPLY"; exit 3; }
echo "== demo with patch (expect FAIL)"
( eval "$CMD" ) > /tmp/seed_demo_patched.log 2>&1; B=$?; tail -3 /tmp/seed_demo_patched.log
rm -f "$DIR/zz_seed_demo_test.go"; git clean -fdq -e seeded -- . >/dev/null 2>&1
echo "== pinned suite with patch (expect 540 pass)"
go test -mod=mod -json -vet=off -count=1 -timeout 25m ./... > /tmp/seed_suite.json 2>/dev/null
python3 - <<'PY'
import json
passed=set()
for l in open('/tmp/seed_suite.json'):
    try: e=json.loads(l)
    except Exception: continue
    if e.get('Test') and e.get('Action')=='pass': passed.add(e['Package']+'::'+e['Test'])
base=set(json.load(open('/root/.vp/BASELINE.json'))['stable_pass'])
m=sorted(base-passed)
print("suite: baseline_missing=%d"%len(m)); [print("   ",x) for x in m[:10]]
PY
git checkout -q -- .
echo "RESULT clean_exit=$A patched_exit=$B"
