#!/usr/bin/env python3
"""keep_seed.py <prop> <n> <id> "<detected-by text>" : copies a confirmed seeded change from /tmp/wt/<prop>/seeded/<n> to /verif/seeded/<id>/"""
import json, os, shutil, sys
prop, n, sid, det = sys.argv[1:5]
src = "/tmp/wt/%s/seeded/%s" % (prop, n)
dst = "/verif/seeded/%s" % sid
os.makedirs(dst, exist_ok=True)
for f in ("patch.diff", "demo_test.go"):
    shutil.copy(os.path.join(src, f), os.path.join(dst, f))
m = json.load(open(os.path.join(src, "meta.json")))
m["breaks_property"] = prop
m["confirmed_by_me"] = ("tools/confirm_seed.sh in the scratch worktree: demo passes without the patch, fails with it; "
                        "the pinned suite (540 tests) passes with the patch applied")
m["check_result"] = det
json.dump(m, open(os.path.join(dst, "meta.json"), "w"), indent=1)
print("kept", dst)
