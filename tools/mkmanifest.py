#!/usr/bin/env python3
"""Regenerates /verif/MANIFEST.json from tools/propcfg.py (run after changing the configuration)."""
import json, os, sys
ROOT = os.path.dirname(os.path.dirname(os.path.abspath(__file__)))
sys.path.insert(0, os.path.join(ROOT, "tools"))
from propcfg import PROPS, NOT_APPLICABLE, HOOK_COMMITS

checks = []
for pid in sorted(PROPS):
    c = PROPS[pid]
    checks.append({
        "property_id": pid,
        "quick_cmd": "./check %s --tier quick" % pid,
        "thorough_cmd": "./check %s --tier thorough" % pid,
        "evidence_file": "/verif/evidence/%s.json" % pid,
        "replay_cmd_template": "./check %s --replay {path}" % pid,
        "engine": "lean4-proof+correspondence",
        "level_claimed": {"category": "proof", "text": c["level_text"], "design_ref": c["design_ref"]},
        "level_note": c["level_note"],
        "technique": c["technique"],
    })
ids = [json.loads(l)["id"] for l in open(os.path.join(ROOT, "properties.jsonl"))]
na = [{"property_id": i, "reason": NOT_APPLICABLE.get(i, "check not built yet in this round (planned: Lean model + proof + correspondence, see DESIGN.md section 6)")}
      for i in ids if i not in PROPS]
m = {
    "version": 1,
    "setup_cmd": "./setup.sh",
    "hooks": {
        "guard": "verif",
        "enable": "go build -tags verif (the harness module replaces github.com/oxia-db/oxia by /repo and is rebuilt by every check)",
        "baseline_off_cmd": "cd /repo && go test -mod=mod -json -vet=off -count=1 -timeout 25m ./...",
        "source_commits": HOOK_COMMITS,
        "add_only": True,
    },
    "engines": [{
        "name": "lean4-proof+correspondence", "path": "/verif/check",
        "serves_properties": sorted(PROPS),
        "kind_free_text": "Lean 4 theorems over executable models (lean/OxiaVerif), facts regenerated from /repo by a go/ast extractor, differential correspondence between the real Go code and the compiled Lean model driver",
    }],
    "checks": checks,
    "not_applicable": na,
    "notes": "All checks share ./check; evidence is rewritten by each run; known findings in known_findings.json; fix commits in /repo start with 'fix:'. Hook commits only add code, with one exception stated here: ee229a3 splits the statement `return ms.txnMappedFile.Flush()` of readWriteSegment.Flush into `err := ...Flush(); <observation>; return err` (same behaviour; the later fix 58de83b rewrites that function body anyway); lines removed by other hook commits are lines of the verif-tagged hook files themselves.",
}
json.dump(m, open(os.path.join(ROOT, "MANIFEST.json"), "w"), indent=1)
print("MANIFEST.json: %d checks, %d not claimed" % (len(checks), len(na)))
