"""Per-property configuration of ./check: Lean modules holding the obligations, the facts they
depend on, trusted base, assumptions, and the rule describing the correspondence cases."""

KERNEL = "Lean 4.33.0 kernel (lake build; leanchecker re-check in the thorough tier); axioms allowed: propext, Classical.choice, Quot.sound"
EXTRACT = "fact extractor /verif/harness/cmd/extract (go/ast pattern rules) that regenerates OxiaVerif/Facts.lean from /repo"
CORR = "correspondence harness /verif/harness (real code in-process, -tags verif) + Lean model driver (line protocol, canonicalised outputs)"

PROPS = {
    "C11": {
        "modules": ["OxiaVerif.Props.C11", "OxiaVerif.Props.C11OnTree"],
        "facts": ["comparer"],
        "trusted_base": [KERNEL, EXTRACT, CORR,
                         "Pebble (LSM, blocks, bloom filters, compaction) is a correct ordered map for a comparer satisfying its documented contract; the contract itself is proved for the wiring read from kv_pebble.go",
                         "pebble.DefaultComparer.Separator/Successor/AbbreviatedKey and InternalKey.Separator's acceptance test are transcribed by hand from pebble v1.1.2"],
        "assumptions": ["bytes are modelled as Nat < 256", "engine-level runs use Pebble's in-memory VFS"],
        "rule": "pure: every pair of keys of length <= 2 (quick) / 3 (thorough) over {-,.,/,0,a,00,01,ff} plus random pairs/triples up to length 10 through the real CompareWithSlash / comparer function values; engine: generated data sets (300-byte-class values, several 64 KiB blocks) with flush/compaction points, every stored key by exact get, comparison gets and scans versus the sorted reference. Non-trivial = the case contains an engine data set, or a comparison decided differently from bytes.Compare; distinct by full op list.",
    },
}

PROPS["C11"].update({
    "level_text": "Machine-checked proof (Lean 4) that the model of CompareWithSlash is a strict total order consistent with key equality (eq_iff, antisymmetry, transitivity, totality, unbounded key length/alphabet) and that the comparer wiring read from kv_pebble.go on every run satisfies Pebble's Separator/Successor/AbbreviatedKey contract; model tied to the code by exhaustive+random differential runs of the real functions and by engine-level runs (real Pebble, flush/compaction) against the sorted reference.",
    "level_note": "Trusted: Lean kernel; go/ast fact extractor (comparer wiring); hand transcription of pebble's bytewise Separator/Successor and acceptance guard; Pebble itself as an ordered map given a lawful comparer (backed, not replaced, by engine-level differential runs); differential harness + driver.",
    "technique": "Lean 4 proof (induction over key segments) + regenerated wiring facts + differential correspondence",
    "design_ref": "DESIGN.md section 6 C11",
})

# properties that are deliberately not claimed, with the reason (others not yet in PROPS are "not built yet")
NOT_APPLICABLE = {}

# verif-guarded hook commits in /repo (add-only)
HOOK_COMMITS = ["fd0e965", "d11cf72"]

PROPS["C09"] = {
    "modules": ["OxiaVerif.Props.C09", "OxiaVerif.Props.C09OnTree"],
    "facts": ["codecV2HeaderSize", "walTruncateUpdatesOffsetsOnAllPaths", "walLastOffsetIsSynced"],
    "trusted_base": [KERNEL, EXTRACT, CORR,
                     "the codec, mmap and the file system below the segment abstraction (a record occupies header+payload bytes; close/reopen keeps the mapped content) - covered separately by C10",
                     "protobuf marshalling of LogEntry (sizes are taken from the real marshaller)"],
    "assumptions": ["entries fit an empty segment (header + marshalled size <= segment size)",
                    "single caller at a time: concurrency of the WAL's own sync goroutine is not modelled here (C08/C04)",
                    "reads (readAt/forward/reverse readers) and the age clause of trimming are tied to the list view by the correspondence check only"],
    "rule": "generated WAL programs (append / appendsync / sync / truncate / clear / trim with injected clock and commit offset / reopen / first / last / forward and reverse reads), segment sizes 64..65536 bytes, payloads sized around the segment capacity, timestamps mostly monotone; after every op the result is compared with the Lean SegWal model, and an independent list-model oracle in Go checks read-back identity, contiguity and the last+1 acceptance rule. Non-trivial = at least 3 successful appends and a successful truncate/trim/reopen; distinct by op list.",
    "level_text": "Machine-checked proof (Lean 4) over the segmented-WAL model for every operation sequence and every segment/entry size: structural invariant of all reachable states, append adds exactly the entry and is accepted exactly at last+1, truncate stores/reports the new last offset on all paths (fact read from TruncateLog), trimming drops only whole leading read-only segments and never passes the commit offset; the model is tied to server/wal by differential runs on the real WAL (real files, injected clock).",
    "level_note": "Trusted: Lean kernel; fact extractor rules for TruncateLog/LastOffset/header size; harness + driver; codec/mmap/filesystem below the segment abstraction. Partial: read paths and the retention-age clause are covered by correspondence only; oversized entries (> segment) excluded by hypothesis.",
    "technique": "Lean 4 proof (invariant by induction over WAL operations) + regenerated facts + differential correspondence on the real WAL",
    "design_ref": "DESIGN.md section 6 C09",
}

PROPS["C10"] = {
    "modules": ["OxiaVerif.Props.C10", "OxiaVerif.Props.C10OnTree"],
    "facts": ["codecSizeCheckOverflowSafe", "codecReadIntGuarded", "codecV2HeaderSize", "codecV1HeaderSize"],
    "trusted_base": [KERNEL, EXTRACT, CORR,
                     "CRC-32C as a function (hash/crc32); its collision behaviour is not claimed: the checksum is a parameter of the theorems",
                     "mmap/msync/page persistence of the OS: the crash model is 'synced prefix bit-exact, anything after it arbitrary'"],
    "assumptions": ["buffer length < 2^32 (segment sizes are int32)",
                    "'every synced entry is recovered' and 'no fabricated entry' are checked on the real code by the harness oracle (original image vs. recovered records), not by a theorem",
                    "index (.idxx) file corruption is covered by correspondence of the WAL reopen path only"],
    "rule": "segment images written with the real codec (0-6 records, formats v1 and v2, records that fill the segment to within 0-3 bytes), then damaged: zero runs, random bytes, bit flips, torn tails with garbage islands, crafted length fields (0, exact fit, fit+-1, 0xFFFFFFF3..0xFFFFFFFF, random) at record boundaries, odd buffer lengths; real RecoverIndex / ReadRecordWithValidation / WAL reopen under recover() versus the Lean byte-level model; the oracle checks never-panics, synced-prefix survival, error only for committed damage, and bit-identity of every recovered v2 record with the original. Non-trivial = the case contains both a non-empty clean-prefix recovery and an error outcome.",
    "level_text": "Machine-checked proof (Lean 4) on a byte-level model of both WAL codecs, for every buffer content/length, start offset and commit offset: header validation, record reads and index recovery never panic (given the two bound-check facts read from ReadHeaderWithValidation on every run), a successful recovery returns only validated, back-to-back records (clean prefix), and a validation failure is an error exactly for entries at or below the commit offset and discarded above it; concrete panic witnesses for the unguarded/overflowing checks. The model is tied to the code by byte-level differential runs on damaged images through the real codecs and the real WAL reopen path.",
    "level_note": "Trusted: Lean kernel; extractor rule classifying the bound checks; CRC as a function; OS persistence model; harness + driver. Partial: synced-prefix survival and no-fabrication are oracle-checked on the implementation, not proved; CRC collisions out of scope.",
    "technique": "Lean 4 proof (case analysis + induction over the recovery loop, uint32 arithmetic explicit) + regenerated bound-check facts + byte-level differential correspondence",
    "design_ref": "DESIGN.md section 6 C10",
}
