"""Per-property configuration of ./check: Lean modules holding the obligations, the facts they
depend on, trusted base, assumptions, and the rule describing the correspondence cases."""

KERNEL = "Lean 4.33.0 kernel (lake build; leanchecker re-check in the thorough tier); axioms allowed: propext, Classical.choice, Quot.sound"
EXTRACT = "fact extractor /verif/harness/cmd/extract (go/ast pattern rules) that regenerates OxiaVerif/Facts.lean from /repo"
CORR = "correspondence harness /verif/harness (real code in-process, -tags verif) + Lean model driver (line protocol, canonicalised outputs)"

PROPS = {
    "C11": {
        "modules": ["OxiaVerif.Props.C11", "OxiaVerif.Props.C11OnTree"],
        "facts": ["comparer"],
        "trusted_base": [KERNEL, EXTRACT, CORR,
                         "Pebble (LSM, blocks, bloom filters, compaction) is a correct ordered map for a comparer satisfying its documented contract; the contract itself is proved for the wiring read from kv_pebble.go",
                         "pebble.DefaultComparer.Separator/Successor/AbbreviatedKey and InternalKey.Separator's acceptance test are transcribed by hand from pebble v1.1.2"],
        "assumptions": ["bytes are modelled as Nat < 256", "engine-level runs use Pebble's in-memory VFS"],
        "rule": "pure: every pair of keys of length <= 2 (quick) / 3 (thorough) over {-,.,/,0,a,00,01,ff} plus random pairs/triples up to length 10 through the real CompareWithSlash / comparer function values; engine: generated data sets (300-byte-class values, several 64 KiB blocks) with flush/compaction points, every stored key by exact get, comparison gets and scans versus the sorted reference. Non-trivial = the case contains an engine data set, or a comparison decided differently from bytes.Compare; distinct by full op list.",
    },
}

PROPS["C11"].update({
    "level_text": "Machine-checked proof (Lean 4) that the model of CompareWithSlash is a strict total order consistent with key equality (eq_iff, antisymmetry, transitivity, totality, unbounded key length/alphabet) and that the comparer wiring read from kv_pebble.go on every run satisfies Pebble's Separator/Successor/AbbreviatedKey contract; model tied to the code by exhaustive+random differential runs of the real functions and by engine-level runs (real Pebble, flush/compaction) against the sorted reference.",
    "level_note": "Trusted: Lean kernel; go/ast fact extractor (comparer wiring); hand transcription of pebble's bytewise Separator/Successor and acceptance guard; Pebble itself as an ordered map given a lawful comparer (backed, not replaced, by engine-level differential runs); differential harness + driver.",
    "technique": "Lean 4 proof (induction over key segments) + regenerated wiring facts + differential correspondence",
    "design_ref": "DESIGN.md section 6 C11",
})

# properties that are deliberately not claimed, with the reason (others not yet in PROPS are "not built yet")
PROPS["C08"] = {
    "modules": ["OxiaVerif.Props.C08"],
    "facts": ["writeHoldsAppendLockAcrossAllocAndAppend", "writeChecksLeaderStatusBeforeAlloc", "trackerCommitsAtRequiredAcks",
              "walRejectsNonContiguousOffsets", "walSyncCallbacksOnlyForFlushedEntries", "trackerCompletesWaitersUnderLock",
              "walSyncToleratesRollover", "walRolloverFlushesSegment"],
    "trusted_base": [KERNEL, EXTRACT, CORR,
                     "Go mutexes/atomics: the tracker's methods are modelled as atomic events (each runs under q.Lock); the write pipeline as events write / sync / ack / newCursor",
                     "the WAL's group commit is tied by a regenerated fact about the order of the steps in runSync, not run under a race"],
    "assumptions": ["acknowledgements of one cursor arrive in offset order (duplicates and re-deliveries allowed) and only for entries at or below the tracker's head; the head advances one entry at a time (ValidEv)",
                    "2 <= RF <= 17 for the quorum theorem (util.BitSet has 16 bits); RF = 1 commits with the head advance",
                    "the follower cursors, the network and the followers themselves are not part of this model (C03)"],
    "rule": "tracker scripts on the real server.QuorumAckTracker (RF 1-17, recovered head/commit, 5-45 events: head advances with the sync callback's wait registration, cursor attachments at any offset, in-order acks with duplicates, NextOffset); a fifth of the cases leaves the protocol on purpose (gaps, acks beyond the head, head jumps, unordered waits) and is compared with the model only. Pipeline cases: 2-16 goroutines x 20-170 writes on a real standalone leader controller (WAL with and without fsync group commit); oracle: no write fails, version ids contiguous, every response is the response to the caller's own request, commit = head at the end. Oracle for tracker cases: commit recomputed from the per-cursor acked vector, monotone, never past the head; waits complete once, only when committed, in offset order.",
    "level_text": "Machine-checked proof (Lean 4), for every valid run of the tracker (any interleaving of head advances, cursor attachments at any offset, acknowledgements across cursors with duplicates, waits), RF 2..17: the commit offset never moves backwards (stepwise theorem), never passes the head, every offset above the recovered commit offset and at or below it is acknowledged by at least RF/2 distinct cursors, and the next one is not - so it equals the highest quorum-acknowledged prefix; the bitset never overflows. Proved with a ghost 'acked up to' vector and an invariant tying each tracked entry's cursor set to it (the quorum reaches entries in offset order). Waiting writes: completed plus waiting is always a permutation of the registered callbacks (unconditional), completions are a prefix of the waiting list at or below the commit offset. Pipeline: with allocation and append in one critical section (fact) no append is rejected and the WAL receives head+1, head+2, ... for every interleaving; proved counterexample for the split version (D-1). Tied to the code by five regenerated facts and differential runs.",
    "level_note": "Trusted: Lean kernel; extractor rules (append lock, required acks, commit store before completions, WAL offset check, runSync step order); Go runtime. Assumed: in-order acks at or below the head. Not modelled: follower side, network. Fixed D-1 (concurrent writers rejected, leader stuck). Observation D-33 (ack overtaking the head advance is dropped) documented, not claimed.",
    "technique": "Lean 4 proof (ghost-state invariant, event-fold induction) + regenerated facts + differential correspondence",
    "design_ref": "DESIGN.md section 6 C08",
}

PROPS["C14"] = {
    "modules": ["OxiaVerif.Props.C14"],
    "facts": ["sessionShadowPutBeforeDelete", "sessionInitializeRearmsAllSessions", "sessionCallbackOnEveryRangeDeletedKey", "sessionExpiryRunsCleanup"],
    "trusted_base": [KERNEL, EXTRACT, CORR,
                     "M-Session abstracts the database to (records with owner, session records, shadow keys) and the leader to (timers, clock); values, versions, indexes and notifications are M-Db's (C12/C13/C15); the projection of the real database onto these components is done by the harness (key patterns __oxia/session/<id>[/<escaped key>])",
                     "Go timers: a session's timer is a deadline = last (re)arming + timeout; wall-clock scripts are compared only when the harness kept up with the schedule"],
    "assumptions": ["client ranges do not enclose the internal __oxia/ key space (known finding D-15 of C13)",
                    "C14_end_session_exact covers close/expiry with nothing interleaved between the listing and the cleanup write; the interleaved schedule is the proved counterexample / known finding D-34",
                    "leader changes are modelled on one node (standalone leader, new term); the replication of the session records is C06"],
    "rule": "scripts of 6-36 operations on a real standalone leader controller: session creation (ids read back), puts plain / within live, dead and never-existing sessions over 13 keys (slashes, escapes, non-ASCII), deletes, range deletes, heartbeats (also back-to-back), close, leader change (NewTerm + BecomeLeader), full dumps of the database projected onto records/sessions/shadows plus the leader's live timers; 1/8 of the cases run on the wall clock (timeouts 3-7 units of 120 ms, odd; advances even) with expiry; 1/6 drive the yield point between the listing and the cleanup write of a closing session with a concurrent put (aimed at a key the session owns). Oracle: an independent bookkeeping of owners driven by the implementation's answers - dead-session writes refused, live ones accepted, records exactly the expected ones with the expected owners, shadows = ephemeral records, sessions gone exactly when closed or a full timeout after the last (re)arming, a timer for every session of the database, no hang.",
    "level_text": "Machine-checked proof (Lean 4) on M-Session, for every sequence of puts (plain / in a session), deletes, range deletes, session creations, heartbeats, closes, clock advances and leader changes: the invariant 'shadow keys = (session, key) pairs of the ephemeral records, and every ephemeral record's session exists' holds in every reachable state; ending a session removes exactly the records it owns at that moment, the session and its shadows, and nothing else; ownership follows the last writer; a write naming a dead session is refused and changes nothing; the clock ends a session only after its deadline, and creation, heartbeat and leader change each arm a full timeout (a leader change for every session of the database, which are all kept). Proved counterexamples for the list/write window of session.delete (D-34) and for the swapped shadow order. Tied to the code by four regenerated facts and differential runs against a real leader controller.",
    "level_note": "Trusted: Lean kernel; extractor rules (callback order, Initialize, range-delete callback loop, expiry path); harness projection; Go timers. Known finding D-34 (close is not atomic: foreign record deleted / orphaned ephemeral); fixed D-35 (heartbeat dead-lock).",
    "technique": "Lean 4 proof (invariant over all operation sequences, exactness of session end) + regenerated facts + differential correspondence with yield-point schedules",
    "design_ref": "DESIGN.md section 6 C14",
}

PROPS["C20"] = {
    "modules": ["OxiaVerif.Props.C20", "OxiaVerif.Props.C20Stream"],
    "facts": ["batcherRearmsTimerAfterSplit", "multiShardGetReturnsAfterError", "readBatchFreshResponsePerAttempt", "writeBatchHandlePositional",
              "writeStreamKeepsTimedOutRequests", "rangeScanClosesChannelOnAllPaths"],
    "trusted_base": [KERNEL, EXTRACT, CORR,
                     "Go channels, time.Timer and the backoff library: the run loop is modelled as a fold over the events it selects (call taken from the channel, timer fired, close)",
                     "a fake executor (harness) stands for the gRPC streams of the batches; the write stream wrapper (write_stream.go) runs over a stream of the harness whose 'leader' answers in order; list fan-out is not modelled"],
    "assumptions": ["Add is atomic with respect to Close (the check of the closed flag and the channel send are one event); an Add racing with Close is outside the model",
                    "every shard delivers its range-scan results in key order and without error (the error short-cut of the merge is not modelled)",
                    "the server answers with response lists of the request's shape (C12)"],
    "rule": "generated scripts on the real batchers (oxia/batch + internal/batch through verif hooks) with a fake executor that tags each answer with the request it answers: batcher scripts (1-12 events: calls of 8-300 bytes, timer idles, close; linger 0 or 150 ms; max requests 1-6 or unlimited; byte limit 40-240; read or write batcher), single write batches with mixed put/delete/delete-range and scripted executor failures (retriable, fatal, timeout), read batches whose stream breaks after a prefix, multi-shard comparison gets (1-5 shards, all five comparison types, found/not-found/error per shard, random arrival order), k-way merges (1-5 shards, slash-ordered keys, occasional duplicates), write-stream scripts (2-6 requests, callers that give up after 60 ms, responses, a broken stream) on the real stream wrapper, range scans over one or several shards with failing requests and broken streams (the result channel must get closed). Oracle: each call exactly one callback with its own tag; executed batches = completed calls in order, within limits; multi-get completes once with the extremal key or the error, no panic; merge sorted and a permutation. Wall-clock dependent scripts whose Adds took too long are marked not comparable (~).",
    "level_text": "Machine-checked proof (Lean 4), for every event sequence and configuration of the batcher loop: every submitted call has exactly one outcome (list equality with the submission order, not just counts); executed batches are consecutive runs of the call stream, non-empty, within the request and byte limits; an open batch always has an armed timer (given the re-arm fact) and the timer completes it. Write batch: each call gets the answer to its own request for every mix of kinds (zip/filter lemma + permutation). Read batch: fresh response per attempt (fact) implies positional answers after any number of broken streams. Multi-shard get: for every permutation of arrivals and every error placement, exactly one completion, no panic, FLOOR/LOWER maximal and CEILING/HIGHER minimal under the slash order (uses the C11 order laws). k-way merge: permutation of the inputs and globally sorted, by induction on fuel. Write stream: for every order of sends, callers that give up, responses and a break, a caller that gets a response gets the response to its own request (C20_stream_response_is_own, invariant: the wrapper's queue and the leader's unanswered requests are the same requests in the same order), given that a request whose caller gave up keeps its place (fact; proved counterexample otherwise). Tied to the code by five regenerated facts and differential runs.",
    "level_note": "Trusted: Lean kernel; extractor rules; Go runtime (channels/timers) abstracted into events; fake executor. Not modelled: Add/Close race, list fan-out, merge error short-cut. Fixed D-24 (second shard error panicked) and D-49 (a single-shard range scan whose request fails never closed its result channel).",
    "technique": "Lean 4 proof (event-fold invariants, permutation/sortedness induction) + regenerated facts + differential correspondence",
    "design_ref": "DESIGN.md section 6 C20",
}

NOT_APPLICABLE = {}

# verif-guarded hook commits in /repo (add-only)
HOOK_COMMITS = ["fd0e965", "d11cf72", "46739fb", "981ad0e", "643526d", "e05858a", "edb0adb", "7d5379a", "42d08ad", "d63880c", "c52c40e", "cfdc2ec", "ee229a3", "82ee13c", "c8aaeb5", "daf1a1c", "2ce3bf7", "5773edf", "e263970", "c0747c3"]

PROPS["C09"] = {
    "modules": ["OxiaVerif.Props.C09", "OxiaVerif.Props.C09OnTree"],
    "facts": ["codecV2HeaderSize", "walTruncateUpdatesOffsetsOnAllPaths", "walLastOffsetIsSynced"],
    "trusted_base": [KERNEL, EXTRACT, CORR,
                     "the codec, mmap and the file system below the segment abstraction (a record occupies header+payload bytes; close/reopen keeps the mapped content) - covered separately by C10",
                     "protobuf marshalling of LogEntry (sizes are taken from the real marshaller)"],
    "assumptions": ["entries fit an empty segment (header + marshalled size <= segment size)",
                    "single caller at a time: concurrency of the WAL's own sync goroutine is not modelled here (C08/C04)",
                    "reads (readAt/forward/reverse readers) and the age clause of trimming are tied to the list view by the correspondence check only"],
    "rule": "generated WAL programs (append / appendsync / sync / truncate / clear / trim with injected clock and commit offset / reopen / first / last / forward and reverse reads), segment sizes 64..65536 bytes, payloads sized around the segment capacity, timestamps mostly monotone; after every op the result is compared with the Lean SegWal model, and an independent list-model oracle in Go checks read-back identity, contiguity and the last+1 acceptance rule. Non-trivial = at least 3 successful appends and a successful truncate/trim/reopen; distinct by op list.",
    "level_text": "Machine-checked proof (Lean 4) over the segmented-WAL model for every operation sequence and every segment/entry size: structural invariant of all reachable states, append adds exactly the entry and is accepted exactly at last+1, truncate stores/reports the new last offset on all paths (fact read from TruncateLog), trimming drops only whole leading read-only segments and never passes the commit offset; the model is tied to server/wal by differential runs on the real WAL (real files, injected clock).",
    "level_note": "Trusted: Lean kernel; fact extractor rules for TruncateLog/LastOffset/header size; harness + driver; codec/mmap/filesystem below the segment abstraction. Partial: read paths and the retention-age clause are covered by correspondence only; oversized entries (> segment) excluded by hypothesis.",
    "technique": "Lean 4 proof (invariant by induction over WAL operations) + regenerated facts + differential correspondence on the real WAL",
    "design_ref": "DESIGN.md section 6 C09",
}

PROPS["C10"] = {
    "modules": ["OxiaVerif.Props.C10", "OxiaVerif.Props.C10OnTree"],
    "facts": ["codecSizeCheckOverflowSafe", "codecReadIntGuarded", "codecV2HeaderSize", "codecV1HeaderSize",
              "walRolloverFlushesSegment", "walLastOffsetIsSynced", "walSyncCallbacksOnlyForFlushedEntries", "walAppendTerminatesLog"],
    "trusted_base": [KERNEL, EXTRACT, CORR,
                     "CRC-32C as a function (hash/crc32); its collision behaviour is not claimed: the checksum is a parameter of the theorems",
                     "mmap/msync/page persistence of the OS: the crash model is 'synced prefix bit-exact, anything after it arbitrary'"],
    "assumptions": ["buffer length < 2^32 (segment sizes are int32)",
                    "'every synced entry is recovered' and 'no fabricated entry' are checked on the real code by the harness oracle (original image vs. recovered records), not by a theorem",
                    "index (.idxx) file corruption is covered by correspondence of the WAL reopen path only"],
    "rule": "segment images written with the real codec (0-6 records, formats v1 and v2, records that fill the segment to within 0-3 bytes), then damaged: zero runs, random bytes, bit flips, torn tails with garbage islands, crafted length fields (0, exact fit, fit+-1, 0xFFFFFFF3..0xFFFFFFFF, random) at record boundaries, odd buffer lengths; real RecoverIndex / ReadRecordWithValidation / WAL reopen under recover() versus the Lean byte-level model; plus scripts on the real WAL: a crash that damages one uncommitted entry and leaves the later ones intact, a reopen, one append (same or other size) and a second reopen (the list model decides what the log holds); and scripts of asynchronous appends and syncs on a syncing WAL across segment boundaries, observed through a hook on append / msync / close of the segments (what is reported as synced must lie in file regions an msync has covered since they were written); the oracle checks never-panics, synced-prefix survival, error only for committed damage, and bit-identity of every recovered v2 record with the original. Non-trivial = the case contains both a non-empty clean-prefix recovery and an error outcome.",
    "level_text": "Machine-checked proof (Lean 4) on a byte-level model of both WAL codecs, for every buffer content/length, start offset and commit offset: header validation, record reads and index recovery never panic (given the two bound-check facts read from ReadHeaderWithValidation on every run), a successful recovery returns only validated, back-to-back records (clean prefix), and a validation failure is an error exactly for entries at or below the commit offset and discarded above it; concrete panic witnesses for the unguarded/overflowing checks. The model is tied to the code by byte-level differential runs on damaged images through the real codecs and the real WAL reopen path.",
    "level_note": "Trusted: Lean kernel; extractor rule classifying the bound checks; CRC as a function; OS persistence model; harness + driver. Fixed D-45 (segment tail never msync'ed at a rollover, yet reported as synced) and D-51 (entries discarded by a recovery came back after the next append and restart). Partial: synced-prefix survival and no-fabrication are oracle-checked on the implementation, not proved; CRC collisions out of scope.",
    "technique": "Lean 4 proof (case analysis + induction over the recovery loop, uint32 arithmetic explicit) + regenerated bound-check facts + byte-level differential correspondence",
    "design_ref": "DESIGN.md section 6 C10",
}

DBTRUST = "Pebble as an ordered map for a lawful comparer (C11); protobuf (un)marshalling of StorageEntry / NotificationBatch; fmt.Sprintf/Sscanf and url.PathEscape transcribed by hand into the model (validated by the correspondence runs)"
DBRULE = "generated request programs on a real kv.DB (Pebble, in-memory VFS) with server.WrapperUpdateOperationCallback: puts with every option mix (expected version -1/current/stale, sessions alive/dead, client identity, partition key, sequence deltas incl. 0 and 2^64-1, 1-2 secondary indexes with order-adjacent names), deletes, range deletes (also 98..150 keys around the 100-key threshold), several operations per request, adversarial key alphabets ('/', '-', '.', '\\x01', '%', neighbours of sequence prefixes), reads (get x5 comparison types, list, range-scan, index get/list, notifications) and full ordered dumps of the store; every output line is compared with the Lean M-Db model"

PROPS["C12"] = {
    "modules": ["OxiaVerif.Props.C12"],
    "facts": ["applyOrderPutsDeletesRanges", "deleteRangeThreshold", "processWriteSingleBatchCommit"],
    "trusted_base": [KERNEL, EXTRACT, CORR, DBTRUST],
    "assumptions": ["a write batch is modelled as sequential application on a working copy that is committed atomically (Pebble indexed batch)",
                    "requests that make ProcessWrite return an infrastructure error are C13's subject; here they commit nothing"],
    "rule": DBRULE + ". Oracle: an independent map specification in Go (version ids strictly increasing, conditional iff, modification counts, delete not-found, range delete = exact range, exact reads). Non-trivial = at least one operation that took effect and one that was refused; distinct by op list.",
    "level_text": "Machine-checked proof (Lean 4) over the database model, for every batch state and request: a successful put gets version tracker+1 and a refused one changes nothing; every stored version id is <= the tracker in all reachable states, so new ids are strictly greater than all earlier ones; modification count 0 on creation / previous+1 on update; the version check fails iff the expectation does not match (-1 only on an absent key); delete of an absent key reports not-found; a successful delete removes the record; a range delete leaves no key of [start,end) with either strategy (<=100 point deletes, >100 range tombstone). Model tied to server/kv/db.go by differential runs on the real kv.DB with the real callbacks.",
    "level_note": "Trusted: Lean kernel; extractor (loop order, threshold, single commit); " + DBTRUST + "; harness + driver. Partial: 'no other record is touched' by a range delete is oracle-checked on the implementation, not proved; client access to __oxia/ keys is outside WellFormed.",
    "technique": "Lean 4 proof (ordered-map lemmas + invariant over batch operations) + regenerated facts + differential correspondence on the real kv.DB",
    "design_ref": "DESIGN.md section 6 C12",
}

PROPS["C13"] = {
    "modules": ["OxiaVerif.Props.C13"],
    "facts": ["applyOrderPutsDeletesRanges"],
    "trusted_base": [KERNEL, CORR, DBTRUST],
    "assumptions": ["infrastructure errors of the storage engine itself (I/O) are outside the model: the model's map cannot fail",
                    "the reachable-state generalisation (every user-visible key holds a storage entry) is not proved; the per-operation theorems take it as hypothesis"],
    "rule": DBRULE + ", with emphasis on requests a well-behaved client library would not build (sequence put without partition key, first delta 0, fewer deltas than existing suffixes, expected version on a sequence put, dead sessions, ranges that enclose the __oxia/ key space, non-UTF-8 keys). Oracle: ProcessWrite must return a response, never an error or a panic. Non-trivial = the program contains such a request.",
    "level_text": "Machine-checked proof (Lean 4): a put without sequence deltas and a delete are always answered with a per-operation status whatever options they carry, and a refused operation has no side effect; the full statement (every request the protobuf type admits) is stated, proved FALSE on the current tree with concrete witnesses (sequence put without partition key / zero delta) and kept as an open known finding; the model agrees with the real ProcessWrite on which requests fail and how (differential runs).",
    "level_note": "Trusted: Lean kernel; " + DBTRUST + "; harness + driver. Partial: C13_put_total_partial / C13_delete_total_partial (hypothesis: the touched key holds a storage entry); sequence puts and ranges over internal keys are the known findings D-5 / D-15.",
    "technique": "Lean 4 proof (totality by case analysis) + proved counterexamples + differential correspondence on the real kv.DB",
    "design_ref": "DESIGN.md section 6 C13",
}

PROPS["C15"] = {
    "modules": ["OxiaVerif.Props.C15"],
    "facts": ["secondaryGetChecksIndexName", "secondaryGetEndOfKeySpaceSafe", "secondaryIndexRegexAllowsEmptyKey"],
    "trusted_base": [KERNEL, EXTRACT, CORR, DBTRUST, "Go regexp semantics of the index-key pattern, transcribed by hand (parseIdxKey)"],
    "assumptions": ["exactness of the index content (entries = pairs declared by live records) is checked on the real code by the harness oracle after every write, not proved",
                    "well-formed index declarations: index name without '/' (the name 'i/x' with key 'b' is the same stored entry as the name 'i' with key 'x/b') and secondary key without \\x01 (the entry then parses with a wrong primary key); empty secondary keys are generated (the iterator used to panic on them: fixed D-52, noted as D-22 when reading)"],
    "rule": DBRULE + ", with 2-4 indexes whose names are order-adjacent (i, i0, i1, j), secondary keys at the extremes, records moved between indexes and re-declared, and all five comparison gets at and beyond both edges of every index; a dump precedes every index query. Oracle: stored index entries == pairs declared by the live records; a get returns an entry of the requested index, satisfying the comparison, with no closer entry; found iff some entry matches. Non-trivial = an index query that found a record.",
    "level_text": "Machine-checked proof (Lean 4): for every store, key and comparison type, every record an index get returns comes from an index key of the requested index (given the two facts read from doSecondaryGet on every run; concrete counterexample without the check = defect D-21), and the primary key stored in an index key is recovered exactly (PathUnescape . PathEscape = id for every byte string). Index maintenance and all index reads are tied to server/secondary_indexes.go + db.go by differential runs with an independent exactness oracle.",
    "level_note": "Trusted: Lean kernel; extractor rules on doSecondaryGet; hand transcription of the regexp, url.PathEscape and the iterator loop; " + DBTRUST + ". Partial: index exactness is oracle-checked, not proved.",
    "technique": "Lean 4 proof (induction over the iterator loop; escape round trip) + regenerated facts + differential correspondence with exactness oracle",
    "design_ref": "DESIGN.md section 6 C15",
}
PROPS["C16"] = {
    "modules": ["OxiaVerif.Props.C16"],
    "facts": ["overrideChannelInnerDefaultContinues", "sequenceUpdateOnlyOnSuccess", "sequenceSubscriptionInitialValueDoesNotOverride"],
    "trusted_base": [KERNEL, EXTRACT, CORR, DBTRUST, "Go channel semantics of a capacity-1 channel with non-blocking select; the mutex in WriteLast serialises writers"],
    "assumptions": ["fair scheduling of the receiver goroutine (liveness is proved in safety form: the latest value is always the one visible)",
                    "numeric order = key order for 20-digit decimals is covered by C11's order laws and correspondence, not by a theorem here"],
    "rule": DBRULE + ", in sequence mode: several sequence puts per request on prefixes p, q, p/q, s, deltas 1..10, 0, 2^40, 2^64-1, 1-3 suffixes, mixed with plain puts and deletes of neighbouring keys (p-0abc, p-1, p--1, p-, p.). Oracle: generated key = prefix + one 20-digit suffix per delta, strictly greater than every existing sequence key of the prefix, never an existing key. Added: sequence-update subscribers (GetSequenceUpdates on the real database) that come and go between the writes of a third of the programs (sq.sub / sq.close / sq.last); oracle: a subscriber's latest value is the latest key generated for its prefix since it subscribed, never the empty key or the key of a rejected put. Non-trivial = at least two generated keys or a multi-suffix key.",
    "level_text": "Machine-checked proof (Lean 4): the generated key is exactly prefix + '-%020d' of (existing suffix or 0) + delta in uint64 for every delta list (closed form, induction over the delta list); a zero first delta is refused; for every interleaving of writer steps and receiver steps of the override channel the value of the last completed WriteLast is the one the subscriber has seen last or sees next (given the shape of WriteLast read from the source; counterexample if the inner default returned). Tied to db_sequences.go by differential runs.",
    "level_note": "Trusted: Lean kernel; extractor rule on WriteLast; " + DBTRUST + "; Go channel semantics. Known findings on the current tree (strictly-greater / never-overwrites fail): D-17 uint64 wrap-around, D-29 foreign key under the prefix. Fixed D-54 (a rejected sequence put announced a key to the subscribers) and D-55 (the initial read of a subscription replaced a newer key announced by a write in progress; scheduled through the yield point sequence.waiter.added). The wait tracker itself (ids, removal) is covered by the subscriber scripts only.",
    "technique": "Lean 4 proof (closed form by induction; interleaving invariant of a pc machine) + regenerated fact + differential correspondence",
    "design_ref": "DESIGN.md section 6 C16",
}
PROPS["C17"] = {
    "modules": ["OxiaVerif.Props.C17"],
    "facts": ["processWriteSingleBatchCommit", "notificationsTrimUpperBoundIsTrimOffsetPlusOne", "notificationsStartAtCommitOffset", "notificationsClientResumesFromEstablishedPosition"],
    "trusted_base": [KERNEL, EXTRACT, CORR, DBTRUST],
    "assumptions": ["the leader's dispatch goroutine and the position of a new subscriber (commit offset, not head) are tied by a regenerated fact, not executed; the trimmer is run synchronously with an injected clock (its race with concurrent commits is covered only by the fact about the deleted key range)",
                    "keys are valid UTF-8 in the trimming programs: the trimmer decodes batches with the validating protobuf decoder and skips trimming forever once a batch holds another key (observation, not a loss)",
                    "delivery order/resumption across reconnects (readNotifications) relies on the order embedding of %016x offset keys: correspondence-checked, not proved",
                    "retention-time trimming (wall clock) and the leader's dispatch goroutines are not modelled"],
    "rule": DBRULE + ", with subscribers (re)connecting at every offset at the end of each program. Oracle: the expected batch of every committed request is recomputed in Go from request + response (created/modified with resulting version id, deleted, range-deleted, last operation per key wins, internal keys filtered); each read must return exactly the batches with offset >= start, ascending. Added: the client's notifications manager (oxia/notifications.go) over a one-shard notification server of the harness that answers like the leader's GetNotifications (dummy batch for a new subscriber, continuation after a start offset), with writes, broken streams and reconnections scripted; oracle: the subscriber is notified of every change committed after its subscription, once, in order. Non-trivial = a read returning at least two batches, one non-empty.",
    "level_text": "Machine-checked proof (Lean 4), for every sorted store and every request: a committed request with notifications enabled stores exactly one batch (its offset, its timestamp) under its own offset key in the same commit as the commit offset (sortedness of the store is preserved by every batch operation); a failed request stores nothing; internal keys never appear; one notification per key; a successful put is announced with its resulting version id as created/modified. Tied to db.go/notifications_tracker.go by differential runs including every stored batch.",
    "level_note": "Trusted: Lean kernel; extractor rule (single commit); " + DBTRUST + ". Partial: ascending delivery and resumption are oracle-checked on the implementation (server: reads from every offset; client: scripted reconnections). Fixed D-53 (a subscriber that started on an empty shard lost the changes committed before its reconnection).",
    "technique": "Lean 4 proof (ordered-map lemmas, invariant preservation over batch operations) + regenerated fact + differential correspondence with recomputed-batch oracle",
    "design_ref": "DESIGN.md section 6 C17",
}

PROPS["C18"] = {
    "modules": ["OxiaVerif.Props.C18"],
    "facts": ["assignmentsPublishAllButDeleting", "generateShardsShape32", "applyClusterChangesSkipsFailedShards"],
    "trusted_base": [KERNEL, EXTRACT, CORR, "the hash function (xxh3) is a parameter: client and server use the same published ranges, only the client hashes keys",
                     "computeNewAssignments is tied by a regenerated fact about its filter (the harness applies the documented rule to the real status), not executed in-process"],
    "assumptions": ["the ensemble supplier does not fail (known finding D-20 otherwise)", "1 <= shard count <= 65536 (known finding D-19 above)",
                    "a shard id's hash range never changes (no split/merge), which the status theorem itself guarantees on the coordinator side"],
    "rule": "GenerateShards for every count 1..1024 (quick) / 1..4096 (thorough) and sampled counts up to 200000; sequences of cluster-config changes (add/remove up to 6 namespaces, 1-5 shards, 1-4 servers, failing ensemble selection in a quarter of the sequences) through the real ApplyClusterChanges; client tables fed with streams of assignment messages (new generations with fewer/more shards, overlapping id ranges, repeated messages) through the real shardManagerImpl.update/Get with an injected hash. Oracle: partition recomputed in Go, table == published partition after an update, every hash code routed to exactly one shard. Non-trivial = more than one shard / a namespace removal / at least two client updates.",
    "level_text": "Machine-checked proof (Lean 4): GenerateShards yields a partition of [0,2^32) with ids base..base+n-1 for every n in 1..65536 (uint32 arithmetic explicit; arithmetic witness of the wrap at 65537); every hash code is contained in exactly one shard of a partition and the client's Get is independent of map iteration order; for any sequence of configuration changes shard ids are unique, below a never-decreasing generator (never reused) and every namespace is either wholly deleting or publishes a partition (supplier total, counts in range); after applying an assignment message that is a partition the client's table equals it as a set, so stale shards are evicted and routing agrees with the published map. Tied to shards.go, cluster_updates.go and shard_manager.go by differential runs.",
    "level_note": "Trusted: Lean kernel; extractor rules (assignment filter, GenerateShards shape); harness + driver; hash function as a parameter. Known findings: D-19 (>65536 shards), D-20 (failed ensemble selection leaves a hole).",
    "technique": "Lean 4 proof (division arithmetic, induction over ranges / config sequences / update streams) + regenerated facts + differential correspondence",
    "design_ref": "DESIGN.md section 6 C18",
}

PROPS["C19"] = {
    "modules": ["OxiaVerif.Props.C19"],
    "facts": ["antiAffinityFirstRuleUnion", "antiAffinityLaterRulesIntersectRunningSet", "selectorChainOrder", "selectorRefusesWhenNoCandidate",
              "replaceInListComparesIdentifiers", "swapShardSelectsAgainstRestOfEnsemble"],
    "trusted_base": [KERNEL, EXTRACT, CORR, "gods linkedhashset / arraylist as ordered sets and lists",
                     "nodeBasedBalancer.swapShard is tied by a regenerated fact about its shape; the harness composes the same selector calls on a single.Context (SetSelected + Select)"],
    "assumptions": ["the tie-break (load ratios, ServerIdx modulo, randomness, map order) is an arbitrary choice function returning a member of the filtered candidate set",
                    "server identifiers are compared by GetIdentifier (fact); the balancer's quarantine/load bookkeeping is not modelled"],
    "rule": "generated clusters: 1-8 servers, 0-3 labels with 1-3 values, servers without metadata or missing a label, 0-3 anti-affinity rules with 1-2 labels (strict, occasionally relaxed), RF 1-5, a random load order as tie-break; ensemble selection through the real ensemble.NewSelector(), node swap through single.NewSelector() on the rest of an existing placement, replaceInList through a verif hook. Oracle: RF distinct servers of the cluster; for every strict rule and label no two members share a value; a swap target is outside the ensemble and adds no violation; refusal is an error, never a panic. Non-trivial = an ensemble accepted under rules and one refused.",
    "level_text": "Machine-checked proof (Lean 4), for every cluster, label assignment, rule list, RF and every choice function: an accepted ensemble has exactly RF distinct servers of the cluster and, for every rule after the first and every label of it, pairwise distinct label values (invariant of the selection loop; fold invariant of the anti-affinity filter); the selection never panics (fact read from the chain) - it yields a full ensemble or refuses; a swap target is never a remaining member and satisfies the rules against them; replaceInList swaps exactly one member. The union semantics of the FIRST rule is modelled as found (fact) with a proved counterexample for multi-label first rules (known finding D-23). Tied to the selectors by differential runs.",
    "level_note": "Trusted: Lean kernel; extractor rules (union/intersection, chain order, refusal, replaceInList, swapShard shape); gods collections; harness + driver. Known finding D-23 (multi-label first rule); fixed D-31 (panic when RF > servers).",
    "technique": "Lean 4 proof (fold invariant + loop invariant, arbitrary choice function) + regenerated facts + differential correspondence",
    "design_ref": "DESIGN.md section 6 C19",
}

CLUSTER = ("cluster harness: real server.LeaderController / FollowerController objects of one shard in one process over an in-memory "
           "ReplicationRpcProvider (Go channels for the replicate / snapshot streams, direct calls for Truncate); elections are scripted "
           "the way the coordinator runs them (new term on every member, the responder with the best head becomes leader, role changes by "
           "closing and re-creating the controller over the same WAL and Pebble directories)")

PROPS["C06"] = {
    "modules": ["OxiaVerif.Props.C06"],
    "facts": ["processWriteSingleBatchCommit", "versionIdPersistedAfterApply", "leaderLiveUsesWrapperCallbackAndEntryArgs",
              "followerApplyUsesWrapperCallbackAndEntryArgs", "leaderReplayUsesWrapperCallbackAndEntryArgs", "followerRestartRestoresNotificationsFlag",
              "newTermSetsNotificationsFlag", "followerApplyResetsPooledEntry", "snapshotInstallReopensDatabase"],
    "trusted_base": [KERNEL, EXTRACT, CORR, CLUSTER, DBTRUST,
                     "the leader's timestamps (time.Now) are mapped to the model's per entry (read back from the commit-offset record of each write); Pebble checkpoints / snapshot chunking are exercised, not modelled (a snapshot install is 're-open the same store')"],
    "assumptions": ["every entry of the log can be applied (no infrastructure error: known finding D-5 of C13 is excluded by the generator)",
                    "the wall-clock garbage collection of old notification batches does not run during a script (retention 1 h)",
                    "the routes are identified with one function by regenerated facts about the four call sites; the callback chain itself is M-Db's (C12/C15)"],
    "rule": "cluster scripts: a 2-node cluster (RF 3) elected at term 1, a third node joined later through AddFollower (snapshot transfer of the leader's database); 10-40 write requests from the M-Db program generator (puts with expected versions, sessions, client ids, partition keys, sequence deltas, secondary indexes; deletes; range deletes; notifications on or off), interleaved with follower restarts, elections (with role changes and WAL replay on the new leader) and checkpoints. A checkpoint dumps the leader's whole key space, writes a marker entry and compares every follower's key space at the same commit offset (and at the marker's offset if it already applied it) with the leader's; the leader's dump is compared with M-Db's after the same requests (timestamps mapped per entry). Oracle: any difference between replicas at the same commit offset, a replica that does not reach the prefix, an election or join that fails.",
    "level_text": "Machine-checked proof (Lean 4) on M-Db: after every successful write the persisted version counter equals the in-memory one, so re-opening the database (restart, role change, snapshot install) gives back exactly the running database (C06_restart_transparent); by induction over any interleaving of entry applications, restarts and snapshot installs the resulting database - records, versions, modification counts, timestamps, session ownership, index entries, sequence keys, notification batches, version counter - equals the one obtained by applying the entries in one go, hence any two replicas that applied the same entries agree (C06_any_split_same_state, C06_two_replicas_agree). That every route calls this one function with the entry's own offset and timestamp and the same callback chain, resets the pooled decode buffer, and restores the term's notifications flag after restart / new term / snapshot is tied by nine regenerated facts; the whole is run differentially against real controllers on all four routes.",
    "level_note": "Trusted: Lean kernel; extractor rules for the call sites of ProcessWrite, NewFollowerController, NewTerm, handleSnapshot; cluster harness; Pebble. Assumed: entries are applicable; no notification trimming during a script. Fixed D-36 (snapshot install enabled notifications).",
    "technique": "Lean 4 proof (restart transparency + induction over route interleavings on M-Db) + regenerated facts + differential correspondence on a real in-process cluster",
    "design_ref": "DESIGN.md section 6 C06",
}

PROPS["C07"] = {
    "modules": ["OxiaVerif.Props.C07"],
    "facts": ["processWriteSingleBatchCommit", "versionIdPersistedAfterApply", "leaderReplayStartsAfterDbCommitOffset", "followerApplyStartsAfterCommitOffset",
              "leaderReplayUsesWrapperCallbackAndEntryArgs", "followerApplyUsesWrapperCallbackAndEntryArgs", "followerApplyResetsPooledEntry", "trackerCompletesWaitersUnderLock",
              "pebbleRunsWithoutItsOwnWal", "walReaderServesOnlySyncedEntries"],
    "trusted_base": [KERNEL, EXTRACT, CORR, CLUSTER, DBTRUST,
                     "Pebble: a batch commit is atomic and a flush makes whole batches durable (so the database after a crash is the state after a whole number of entries); the crash itself is simulated by putting the database directory back to its on-disk content (no Pebble WAL, so the memtable is what is lost) while keeping the shard's WAL",
                     "the WAL delivers contiguous offsets in order (C09)"],
    "assumptions": ["the crash point is abstracted to 'the database holds a prefix of the log' (every prefix length is covered by the theorem; the harness reaches the prefixes that end at a flush)",
                    "crashes in the middle of a snapshot installation are not covered here (finding D-39, see C05)",
                    "every entry of the log can be applied (D-5 excluded by the generator)"],
    "rule": "the cluster scripts of C06 with crashes added: at any point a follower or the leader (then followed by an election) loses its unflushed database state and comes back from the commit offset stored in the database; afterwards more entries are written and every replica is compared with the leader and with M-Db at the same commit offset. Apply rounds of several entries and leader replays of several entries (with secondary indexes, sessions, sequence keys) occur because the database falls back to its last flush.",
    "level_text": "Machine-checked proof (Lean 4) on M-Db and a contiguous log: after every successful write the stored commit offset is the entry's offset (C07_commit_offset_is_last_applied); from the state after ANY prefix of the log - i.e. for every crash point - the replay (read the commit offset c from the database, apply the entries with offset > c in log order) applies exactly the remaining entries, each once, in order, and ends in the state of the whole log (C07_replay_exactly_once_in_order); the commit offset of the crashed database is the offset of a log entry, never ahead of the log (C07_commit_not_ahead_of_log); further crashes during or after the replay compose (C07_repeated_crashes). The code's replay loops are tied to this definition by nine regenerated facts and by differential runs with simulated crashes on a real in-process cluster.",
    "level_note": "Trusted: Lean kernel; extractor rules (single batch, replay start offsets, call sites, reader bound, DisableWAL); Pebble batch/flush atomicity; cluster harness and its crash simulation. Not covered: crash during snapshot install (D-39).",
    "technique": "Lean 4 proof (prefix invariant + replay = remaining suffix, for every prefix length) + regenerated facts + differential correspondence with simulated crashes",
    "design_ref": "DESIGN.md section 6 C07",
}

PCLUSTER = ("protocol harness: one real server.ShardsDirector per node (leader / follower controllers created and converted by the director itself), "
            "the coordinator's RPCs routed as internal_rpc_server.go routes them, an in-memory ReplicationRpcProvider whose partitions hold traffic back; "
            "outputs are compared in settled states (every cursor has delivered what it can)")
PRULE = ("protocol scripts (3 or 5 nodes, 6-30 steps): elections as the coordinator runs them (new term to every reachable node, majority, highest head wins, BecomeLeader with the other "
         "answers as followers), client writes (also to nodes that do not lead), partitions and heals of up to a minority, process restarts, late / duplicate NewTerm, stale BecomeLeader and "
         "AddFollower requests; per-node dumps of controller kind, term, status, WAL entries (term:payload), leader commit offset and cursor acknowledgements; reads on leaders. Scripts that "
         "trigger a snapshot transfer or do not settle are not compared (~).")
REPLTRUST = [KERNEL, EXTRACT, CORR, PCLUSTER,
             "M-Repl makes every RPC atomic and replaces the asynchronous replication by 'settle' (all deliverable entries delivered, acknowledged and counted); interleavings inside a stream, the Go scheduler and gRPC are not modelled",
             "the coordinator is represented by its decision functions (answers needed, candidate filter, highest head) tied by facts; its metadata store and its own crashes are not modelled"]

PROPS["C03"] = {
    "modules": ["OxiaVerif.Props.C03", "OxiaVerif.Props.ReplSafety"],
    "facts": ["truncateComparesWithFollowerTermEntry", "cursorStartsAtTruncatedHead", "followerTruncateOnlyWhenFenced", "followerAppendChecksTermAlways",
              "lateRequestCannotConvertLeader", "snapshotChunkTermMustEqual", "walReaderServesOnlySyncedEntries", "walSyncCallbacksOnlyForFlushedEntries"],
    "trusted_base": REPLTRUST,
    "assumptions": ["C03_attach_compatible_partial assumes that the entry getHighestEntryOfTerm finds is of the follower's head term or does not exist (the remaining case is refuted: known finding D-44), and the log-matching property in the form 'every log is cut from one log per term' (Conforms) and the follower's true head (C04); that this is an invariant of all runs is not proved (it is what the differential runs and the oracle check), and known finding D-40 is a history in which two leaders hold different committed entries",
                    "acknowledgement after WAL sync is tied by the facts about the reader bound and runSync, durability itself is the WAL's (C09/C10)"],
    "rule": PRULE + " Oracle: every follower that acknowledged offset o to the leader of its term holds the leader's entry at every offset up to o; two nodes that lead hold the same entries up to the smaller commit offset; the commit offset is within the log.",
    "level_text": "Machine-checked proof (Lean 4) on M-Repl: for every leader log, starting offset and number of (re-)deliveries, the follower's append loop started on a log compatible with the leader's keeps it compatible, only extends it, never moves the acknowledged offset back and leaves everything at or below it equal to the leader's entries (C03_stream_keeps_acked_prefix_equal, induction over the deliveries; duplicates are acknowledged without a look at the entry, which is why compatibility is needed: proved counterexample); a follower of another term takes nothing; PARTIAL for the attach step: the decision of truncateFollowerIfNeeded as found in the tree yields a compatible log and a cursor position up to which the logs are equal when the leader's last entry at or below the follower's head term is of that very term, or there is none (same term, older term below / beyond the leader's last entry of that term), from the log-matching property (C03_attach_compatible_partial); in the remaining case (the leader holds no entry of the follower's head term but entries of lower terms further up) the statement is false of model and code: kernel-checked witnesses C03_truncation_keeps_foreign_entries and C03_follower_diverges_below_acknowledged_offset, replayed on the implementation (known finding D-44); proved counterexample for the seeded comparison. On A-Repl (the protocol as atomic steps, which excludes the D-44 case; DESIGN.md 10.7) log matching and 'an attached follower holds a prefix of its leader's log' are invariants of every reachable state (log_matching, follower_holds_prefix, by the inductive invariant of ReplSafety). Tied to the code by eight facts, by differential runs, and by the run-time explanation of every script in A-Repl steps.",
    "level_note": "Trusted: Lean kernel; extractor rules; protocol harness. Assumed: log matching as an invariant (checked by the oracle on every settled state, not proved). Known findings D-40b (committed offset holds different entries on two successive leaders) and D-44 (truncation by the offset of a lower-term entry leaves foreign entries below an acknowledged offset).",
    "technique": "Lean 4 proof (stream induction, case analysis of the attach decision) + regenerated facts + differential correspondence on real controllers",
    "design_ref": "DESIGN.md section 6 C03",
}

PROPS["C04"] = {
    "modules": ["OxiaVerif.Props.C04", "OxiaVerif.Props.ReplSafety"],
    "facts": ["newTermRejectsLowerAndPersistsFirst", "newTermWaitsForInFlightAppends", "writeChecksLeaderStatusBeforeAlloc", "writeHoldsAppendLockAcrossAllocAndAppend",
              "followerAppendChecksTermAlways", "followerTruncateOnlyWhenFenced", "snapshotChunkTermMustEqual", "lateRequestCannotConvertLeader", "becomeLeaderOnlyFromFencedSameTerm",
              "followerNewTermSyncsWalBeforeHead", "leaderNewTermSyncsWalBeforeHead"],
    "trusted_base": REPLTRUST + ["the race between a client write and NewTerm is driven through the yield point leader.write.allocated, the race between a follower's append and NewTerm through the yield point follower.sync.woken (the sync goroutine held before it syncs the WAL); the leader's NewTerm against a queued sync of a syncing WAL is tied by a fact only (the harness' WALs do not sync)"],
    "assumptions": ["each RPC is atomic (the controller lock), except the leader write, whose two halves are ordered by the append lock (fact)"],
    "rule": PRULE + " Added: a client write held between the leader's status check and its WAL append while a NewTerm request for that node is served (the node cut off from its followers); an entry appended by a follower whose sync goroutine is held while a NewTerm request for the follower is served; oracle: the head the node answers equals the end of its log afterwards, the log of a fenced node does not grow, writes on fenced nodes are refused.",
    "level_text": "Machine-checked proof (Lean 4) on M-Repl: a successful NewTerm leaves the node fenced in the new term with its log untouched and reports exactly the end of that log; a lower term is always refused; a node that is not leader refuses client writes and nothing changes; appends and truncations of a leader of another term are neither applied nor acknowledged; a request of another term cannot turn a leader controller into a follower; with NewTerm ordered after in-flight appends (fact) the reported head is final (C04_reported_head_is_final) - proved counterexample without the lock (D-42); the same for a follower fenced while an appended entry waits for its sync goroutine, given that NewTerm syncs the WAL before it reads the head (C04_follower_reported_head_is_final; proved counterexample without the sync, D-48). On A-Repl (DESIGN.md 10.7), for every step from every state: a node's log changes only by its own write while it leads or by an attach / append from the node that leads the node's current term (log_changes_only_in_current_term), and terms never go back (term_monotone). Tied to the code by nine facts and by differential runs with the race driven through a yield point.",
    "level_note": "Trusted: Lean kernel; extractor rules; protocol harness; yield hook. Fixed D-42 (write between status check and append outlived the fencing) and D-48 (a follower fenced before its sync goroutine ran reported a head that lagged its log; acknowledged writes ended up on fewer nodes than the quorum).",
    "technique": "Lean 4 proof (per-RPC theorems on the protocol model) + regenerated facts + differential correspondence with a scheduled race",
    "design_ref": "DESIGN.md section 6 C04",
}

PROPS["C05"] = {
    "modules": ["OxiaVerif.Props.C05", "OxiaVerif.Props.ReplSafety", "OxiaVerif.Props.Election"],
    "facts": ["coordinatorPersistsTermBeforeNewTerm", "newTermQuorumMajorityOverEnsembleAndRemoved", "selectNewLeaderTakesMaxTermThenOffset", "newTermRejectsLowerAndPersistsFirst",
              "updateTermFlushes", "becomeLeaderOnlyFromFencedSameTerm", "lateRequestCannotConvertLeader", "snapshotChunkTermMustEqual"],
    "trusted_base": REPLTRUST + ["durability of the term across restarts: fact 'written and flushed before adopted' plus restarts in the scripts; crashes at arbitrary file-system operations are not simulated here"],
    "assumptions": ["one BecomeLeader per term (the coordinator's discipline; a second BecomeLeader of the same term to another fenced node would be accepted)",
                    "a crash in the middle of a snapshot installation is not covered (observation D-39 in DESIGN.md)"],
    "rule": PRULE + " Oracle: a node's term never goes back (also across restarts), at most one node leads a term, an election succeeds only with answers from a majority, the installed leader answered the election. Added: scripts with the coordinator's REAL shard controller (coordinator/controllers.NewShardController) in front of the node controllers, its RPCs routed in-process, with dropped requests, lost replies, leader failures and node swaps (ops k.*; nothing is compared with the model there - retries are a matter of timing); oracle on the log of RPCs and metadata writes: every election attempt uses a fresh term that is in the metadata store before it is sent, BecomeLeader goes to a member of the answering ensemble with the highest head after a majority has answered, at most one node accepts BecomeLeader per term.",
    "level_text": "Machine-checked proof (Lean 4) on M-Repl: the coordinator's choice is one of the candidates and no candidate has a higher head entry, term first, then offset (C05_best_log_wins, by a fold invariant with the order laws of 'better'); BecomeLeader succeeds only on a node fenced in that very term; NewTerm never lowers the term of any node whatever its outcome, and streams / truncations leave terms alone; proved model history for the node-swap election (the removed node counts for the majority but is no candidate). On A-Repl (DESIGN.md 10.7) at most one node leads a term in every reachable state and its log is that term's log (one_leader_per_term, from the inductive invariant of ReplSafety). The decision function and A-Repl are put together in Props/Election.lean: every choice chooseLeader makes from the answers of a majority fenced in the current term is an enabled becomeLeader step (coordinator_choice_enables_becomeLeader), a majority of answers always yields a choice, and the node installed holds every acknowledged own-term entry of every earlier term at its offset (coordinator_installs_leader_holding_acknowledged, with a kernel-checked run that meets the hypotheses). That the term is made durable before it is used (coordinator: metadata store before NewTerm; node: written and flushed before adopted) is tied by facts. Differential runs on real controllers with restarts.",
    "level_note": "Trusted: Lean kernel; extractor rules (electLeader step order, newTermQuorum, selectNewLeader, NewTerm, UpdateTerm, BecomeLeader); protocol harness. Observation D-39 (term lost by a crash during snapshot install) documented, not claimed.",
    "technique": "Lean 4 proof (fold invariant for the selection, per-RPC monotonicity) + regenerated facts + differential correspondence",
    "design_ref": "DESIGN.md section 6 C05",
}

PROPS["C01"] = {
    "modules": ["OxiaVerif.Props.C01", "OxiaVerif.Props.ReplSafety", "OxiaVerif.Props.Election"],
    "facts": ["becomeLeaderOnlyFromFencedSameTerm", "trackerCommitsAtRequiredAcks", "walSyncCallbacksOnlyForFlushedEntries", "walReaderServesOnlySyncedEntries",
              "newTermQuorumMajorityOverEnsembleAndRemoved", "selectNewLeaderTakesMaxTermThenOffset", "truncateComparesWithFollowerTermEntry", "cursorStartsAtTruncatedHead",
              "coordinatorPersistsTermBeforeNewTerm", "updateTermFlushes", "newTermWaitsForInFlightAppends"],
    "trusted_base": REPLTRUST,
    "assumptions": ["fixed ensemble: membership changes are outside A-Repl (known finding D-41 is about them)",
                    "the attach step is not enabled in the case of known finding D-44 (the leader's last entry at or below the follower's head term is of a lower term): histories through that case are outside the theorem, and the implementation diverges there at the log level (C03)",
                    "A-Repl's steps are atomic and logs are durable when appended (WAL: C09/C10; acknowledgement after sync: facts); the steps' decisions are M-Repl's functions (plan, highestOfTerm, better), which are tied to the code by facts and differential runs; that every behaviour of the implementation is a sequence of A-Repl steps is argued in DESIGN.md section 10.7: checked at run time on every script (every M-Repl transition is explained by enabled A-Repl steps), not proved",
                    "disks are kept (C09/C10 for the WAL, C07 for the database); at most a minority is cut off at a time in generated scripts"],
    "rule": PRULE + " Added: elections over an ensemble with a node being removed (swap) while the leader is away; scripts with the coordinator's real shard controller (ops k.*: faults of its RPCs, leader failures, SwapNode), not compared with the model. Oracle: every write acknowledged to the client is in the committed log of, and visible on, the leader of the newest term in every later settled state / the leader the shard controller has installed.",
    "level_text": "Machine-checked proof (Lean 4): LEADER COMPLETENESS for acknowledged writes on A-Repl, the protocol as a transition system of atomic steps (newElection, fence, becomeLeader with a fenced majority and the best head, attach with the truncation decision of the code, append, write, restart) for any number of nodes with a fixed ensemble: in every reachable state, an entry that the leader of term t wrote in its own term and that a majority has acknowledged in term t (acknowledgements are history: they may arrive after the follower moved on) is at its offset in the log of every leader of every later term (leader_completeness), and stays there in every state reachable afterwards (acknowledged_write_survives); also log matching, one leader per term, attached followers hold a prefix of their leader's log. Proof by a 16-part inductive invariant over the history state (inv_step, about 1,000 lines), with the election step from C05's selection rule and C03's attach theorem; non-vacuity by kernel-evaluated runs (demo_run_meets_hypotheses) and the boundary by d44_attach_not_enabled. Put together with the coordinator's decision function (Props/Election.lean): from every reachable state, whatever majority answered in the current term and whichever node is preferred, the node chooseLeader installs already holds every acknowledged own-term entry of every earlier term (coordinator_installs_leader_holding_acknowledged). On M-Repl: a write is acknowledged only at or below the leader's quorum commit offset (C01_ack_only_after_commit). PARTIAL with respect to the property's quantifier: membership changes (node swap) are outside A-Repl - proved model history that loses acknowledged writes there (known finding D-41), reproduced on real node controllers - and so are histories through the D-44 attach case. Tied to the code by eleven facts and by differential runs with partitions, restarts and elections.",
    "level_note": "Proof for a fixed ensemble outside the D-44 case; PARTIAL for reconfiguration. Trusted: Lean kernel; extractor rules; protocol harness; the correspondence between A-Repl's steps and the implementation's RPC handling (same decision functions as M-Repl, not proved). Known finding D-41 (node swap election can install a leader without acknowledged writes).",
    "technique": "Lean 4 proof (inductive invariant over an abstract protocol model: leader completeness) + regenerated facts + differential correspondence on real controllers",
    "design_ref": "DESIGN.md section 6 C01",
}

PROPS["C02"] = {
    "modules": ["OxiaVerif.Props.C02", "OxiaVerif.Props.ReplSafety"],
    "facts": ["becomeLeaderOnlyFromFencedSameTerm", "trackerCommitsAtRequiredAcks", "leaderLiveUsesWrapperCallbackAndEntryArgs", "writeHoldsAppendLockAcrossAllocAndAppend",
              "cursorStartsAtTruncatedHead", "versionIdPersistedAfterApply", "selectNewLeaderTakesMaxTermThenOffset"],
    "trusted_base": REPLTRUST + ["the single-copy semantics of the operations themselves (conditional puts, deletes, range deletes, reads) is M-Db's (C12, C13, C15); exactly-once application is C07, order and own-response C08"],
    "assumptions": ["linearizability is reduced to: the log order is the sequential history, effects are applied in log order exactly once, a read shows a committed prefix, and what has been shown stays a prefix of what later leaders show; concurrent client histories with overlapping operations are not generated as such (writes are issued one at a time per script)"],
    "rule": PRULE + " Oracle: the sequence of writes a read shows is extended, never changed, by every later read on any leader (no rolled-back data), and never goes beyond the commit offset.",
    "level_text": "Machine-checked proof (Lean 4), partial: what a read shows is a prefix of the leader's log bounded by the quorum commit offset, and on one leader a later commit offset only extends it. Across leaders (A-Repl, every reachable state, DESIGN.md 10.7): the whole prefix up to an own-term entry that a majority has acknowledged is the same in the log of every later leader (acknowledged_prefix_never_rolled_back) - a read that shows nothing beyond such an offset is never rolled back. The cross-leader part of the property is FALSE of the model and of the code for entries that a leader re-commits from older terms: C02_recommitted_entry_rolled_back is the kernel-checked history (known finding D-40), reproduced on the implementation. Tied to the code by seven facts and by differential runs.",
    "level_note": "PARTIAL proof; the full statement is refuted by D-40 (read-visible, quorum-committed data of an older term rolled back by the next election).",
    "technique": "Lean 4 proof (partial) with a kernel-checked counterexample + regenerated facts + differential correspondence on real controllers",
    "design_ref": "DESIGN.md section 6 C02",
}
