#!/bin/bash
# runall.sh [tier] : every check once on the current tree; one summary line per property
TIER=${1:-quick}
cd /verif
for i in $(seq -w 1 20); do
  P=C$i
  OUT=$(timeout 7200 ./check $P --tier $TIER 2>&1); RC=$?
  echo "$P rc=$RC $(echo "$OUT" | grep -c '^VIOLATION') violations; $(echo "$OUT" | grep "tier=$TIER" | tail -1)"
  echo "$OUT" | grep '^VIOLATION\|^BROKEN' | head -5
done
