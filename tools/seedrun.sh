#!/bin/bash
# seedrun.sh <property> <patch.diff> [tier] : applies a seeded change to /repo, runs the check, reverts.
P=$1; PATCH=$2; TIER=${3:-quick}
cd /repo && git status --short | grep -q . && { echo "repo dirty"; exit 2; }
git apply "$PATCH" 2>/dev/null || git apply --3way "$PATCH" 2>/dev/null || patch -p1 -s --no-backup-if-mismatch < "$PATCH" || { echo "PATCH DOES NOT APPLY"; git reset -q; git checkout -q -- .; git clean -fdq; exit 3; }
# the evidence file of a seeded run must not replace the record of the unchanged tree
mkdir -p /verif/.work && cp /verif/evidence/$P.json /verif/.work/evidence.$P.keep 2>/dev/null
cd /verif && timeout 1500 ./check $P --tier $TIER | tail -6
RC=${PIPESTATUS[0]}
cp /verif/.work/evidence.$P.keep /verif/evidence/$P.json 2>/dev/null; rm -f /verif/.work/evidence.$P.keep
cd /repo && git reset -q && git checkout -q -- . && git clean -fdq && git status --short | head -3
exit $RC
