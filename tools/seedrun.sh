#!/bin/bash
# seedrun.sh <property> <patch.diff> [tier] : applies a seeded change to /repo, runs the check, reverts.
P=$1; PATCH=$2; TIER=${3:-quick}
cd /repo && git status --short | grep -q . && { echo "repo dirty"; exit 2; }
git apply "$PATCH" 2>/dev/null || git apply --3way "$PATCH" 2>/dev/null || patch -p1 -s --no-backup-if-mismatch < "$PATCH" || { echo "PATCH DOES NOT APPLY"; git checkout -q -- .; exit 3; }
cd /verif && timeout 1500 ./check $P --tier $TIER | tail -6
RC=$?
cd /repo && git checkout -q -- . && git reset -q && git status --short | head -3
exit $RC
