#!/bin/bash
# seedsall.sh : every kept seeded change against the check of its property; one line per seed
cd /verif
for d in ${@:-seeded/*/}; do
  id=$(basename $d); p=${id:0:3}
  OUT=$(tools/seedrun.sh $p /verif/$d/patch.diff 2>&1)
  V=$(echo "$OUT" | grep -c '^VIOLATION')
  N=$(echo "$OUT" | grep '^VIOLATION' | grep -c 'no-failing-input-found')
  B=$(echo "$OUT" | grep -c '^BROKEN-OBLIGATION')
  if echo "$OUT" | grep -q "PATCH DOES NOT APPLY"; then echo "$id: PATCH DOES NOT APPLY"; continue; fi
  echo "$id: violations=$V (without input: $N) broken-obligations=$B"
done
